import Std.Data.HashSet
import RedisGoModel.Raft.RHDriverLemmas
import RedisGoModel.Raft.RQ
import RedisGoModel.Raft.RQJoint
import RedisGoModel.Raft.RSC
import RedisGoModel.Raft.RHC
import RedisGoModel.Raft.RSJ
import RedisGoModel.Raft.RHJ
/-! Lock-step driver for C15 (run interpreted: `lake env lean --run RaftDriver.lean < trace`; the Raft model imports
    Mathlib, so it is not linked into the compiled `driver`).

    The trace (written by `harness raftsim`) has one line per event on one `raft.RawNode`:
      `E <kind> <node> <inputs> <term> <vote> <role> <lead> <commit> <log> <match> <votes> <out>`
    For every event the driver calls `RS.handle` once per listed model input, compares the resulting node with the observed
    projection EXACTLY (term, vote, role, lead, commit, log; match[] of a leader; votes[] of a candidate) and checks every
    emitted message: it must be one of the responses `handle` computed (vote requests of `hup` included) or pass
    `RS.leaderOutB` (proved sound for `RS.leaderOut`) on the post-state of one of the event's calls.  A `recv` input must be
    a message emitted earlier and addressed to that node (`RS.enabled`).  By `RS.driver_step_is_run` an accepted trace is
    an `RS.Run`, so `RS.run_covered` and the `run_*` theorems apply to it.

    Outside the model's vocabulary, checked by the driver itself: MsgHeartbeatResp (emitted exactly when a heartbeat was
    handled; receiving one is the no-op input `beat` plus leader traffic) and forwarded MsgProp (emitted by a follower that
    knows a leader; receiving one is `prop v`).

    `Q`/`V` lines: Stage A — etcd's `MajorityConfig.CommittedIndex` / `VoteResult` on random inputs against
    `RS.committedIndex`, `RS.qidx`, `RS.wonVotes`, `RS.lostVotes`.

    `JQ`/`JV`/`CI`/`CC` lines: Stage D, first step (written by `harness raftsim -stageD`, see harness/quorum.go) — etcd's
    `quorum.JointConfig.CommittedIndex` / `VoteResult` on random joint configs and partial ack/vote maps against
    `RQJ.JointConfig.committedIndex` / `voteResult`, and sequences of `confchange.Changer` operations (`Simple`, `EnterJoint`,
    `LeaveJoint`, started by `Restore` or an empty tracker) against `RQJ.simple` / `enterJoint` / `leaveJoint` / `restore`:
    ok/err must agree, and after every operation the tracker's `Config` AND its `ProgressMap` (ids, `IsLearner`) must equal
    the model's config and the progress map derived from it (`RQJ.hasProgress`, `RQJ.isLearnerPr`). -/
open RS

namespace RaftDriver

def fin? (N : Nat) (s : String) : Option (Fin N) :=
  match s.toNat? with
  | some k => if h : k < N then some ⟨k, h⟩ else none
  | none => none

def optFin? (N : Nat) (s : String) : Option (Option (Fin N)) :=
  if s == "-" then some none else (fin? N s).map some

/-- member schedules: the harness writes a conf-change entry as `1<<40 | type<<8 | id` and a normal payload as its number; the
    model (`RSC.ccOf`) wants `4*id + {1 AddNode, 2 RemoveNode, 3 AddLearnerNode}` and `4*payload` -/
def encD (d : Nat) : Nat :=
  if d / 1099511627776 == 1 then
    let ty := (d / 256) % 256
    let id := d % 256
    4 * id + (if ty == 0 then 1 else if ty == 1 then 2 else if ty == 3 then 3 else 0)
  else 4 * d

def ccTypeJ (n : Nat) : RQJ.ChangeType :=
  if n == 0 then .addNode else if n == 1 then .removeNode else if n == 2 then .updateNode else .addLearnerNode

/-- member-joint schedules: a legacy conf change is `1<<40 | type<<8 | id`, a `ConfChangeV2` is
    `2<<40 | transition<<36 | len<<32 | four bytes (type<<6 | id), first change highest` (`harness/raftsim.go` `encV2`), a normal payload
    its number; the model (`RSJ.ccOf`) wants `RSJ.encCC` of the conf change as `applyConfChange` classifies it (`Transition = Auto` with
    no change: `leave`; with one change: `single`; with more, or `JointImplicit`: `enter true`; `JointExplicit`: `enter false`) and `8*payload` -/
def encDJ (d : Nat) : Nat :=
  if d / 1099511627776 == 1 then
    let ty := (d / 256) % 256
    let id := d % 256
    8 * id + (if ty == 0 then 1 else if ty == 1 then 2 else if ty == 3 then 3 else 0)
  else if d / 1099511627776 == 2 then
    let tr := (d / 68719476736) % 16
    let n := (d / 4294967296) % 16
    let chs : List RQJ.Change := (List.range n).map fun k =>
      let b := (d / (256 ^ (3 - k))) % 256
      ⟨ccTypeJ (b / 64), b % 64⟩
    let cc : RSJ.CC :=
      if tr == 0 then (match chs with | [] => .leave | [c] => .single c | _ => .enter true chs)
      else if tr == 1 then .enter true chs else .enter false chs
    RSJ.encCC cc
  else 8 * d

def parseEnts (s : String) (mem : Bool := false) (jt : Bool := false) : Option Log :=
  if s == "-" then some [] else
  (s.splitOn "/").mapM fun f =>
    match f.splitOn "." with
    | [t, d] => match t.toNat?, d.toNat? with
      | some t, some d => some ⟨t, if jt then encDJ d else if mem then encD d else d⟩
      | _, _ => none
    | _ => none

def bool? (s : String) : Option Bool := if s == "0" then some false else if s == "1" then some true else none

/-- a message of the trace: in the model's vocabulary, or one of the two kinds the model abstracts -/
inductive PMsg (N : Nat)
| m (x : Msg1 N)
| hbResp (t : Nat) (src dst : Fin N)
| propFwd (src dst : Fin N) (v : Nat)
| propFwdC (src dst : Fin N) (vs : List Nat) (raw : String)

def parseMsg (N : Nat) (s : String) (mem : Bool := false) (jt : Bool := false) : Option (PMsg N) :=
  match s.splitOn "," with
  | ["vote", t, f, d, li, lt] => do
      return .m (.vote (← t.toNat?) (← fin? N f) (← fin? N d) (← li.toNat?) (← lt.toNat?))
  | ["voteResp", t, f, d, r] => do
      return .m (.voteResp (← t.toNat?) (← fin? N f) (← fin? N d) (← bool? r))
  | ["app", t, f, d, prev, pt, cm, es] => do
      return .m (.app (← t.toNat?) (← fin? N f) (← fin? N d) (← prev.toNat?) (← pt.toNat?) (← parseEnts es mem jt) (← cm.toNat?))
  | ["appResp", t, f, d, idx, r] => do
      return .m (.appResp (← t.toNat?) (← fin? N f) (← fin? N d) (← idx.toNat?) (← bool? r))
  | ["hb", t, f, d, c] => do
      return .m (.hb (← t.toNat?) (← fin? N f) (← fin? N d) (← c.toNat?))
  | ["snap", t, f, d, k, es] => do
      return .m (.snap (← t.toNat?) (← fin? N f) (← fin? N d) (← k.toNat?) (← parseEnts es mem jt))
  | ["hbResp", t, f, d] => do
      return .hbResp (← t.toNat?) (← fin? N f) (← fin? N d)
  | ["propFwd", _, f, d, v] => do
      if jt then return .propFwdC (← fin? N f) (← fin? N d) ((← (v.splitOn "+").mapM String.toNat?).map encDJ) v
      else if mem then return .propFwdC (← fin? N f) (← fin? N d) ((← (v.splitOn "+").mapM String.toNat?).map encD) v
      else return .propFwd (← fin? N f) (← fin? N d) (← v.toNat?)
  | _ => none

/-- table-backed function (so that closures do not grow with the length of the run) -/
def lookup {α : Type} {N : Nat} (a : Array α) (dflt : α) : Fin N → α := fun j => a.getD j.val dflt

def freeze {N : Nat} (n : Node1 N) : Node1 N :=
  let va := Array.ofFn n.votes
  let ma := Array.ofFn n.matchI
  { n with votes := lookup va none, matchI := lookup ma 0 }

structure Obs (N : Nat) where
  term : Nat
  vote : Option (Fin N)
  role : Role
  lead : Option (Fin N)
  commit : Nat
  log : Log
  matchI : Option (List Nat)
  votes : Option (List (Option Bool))

def parseRole (s : String) : Option Role :=
  if s == "F" then some .follower else if s == "C" then some .candidate else if s == "L" then some .leader else none

def parseObs (N : Nat) (t v r l c lg mt vt : String) (mem : Bool := false) (jt : Bool := false) : Option (Obs N) := do
  let mt' ← if mt == "-" then some none else ((mt.splitOn ",").mapM String.toNat?).map some
  let vt' ← if vt == "-" then some none else
    ((vt.splitOn ",").mapM fun x => if x == "n" then some none else (bool? x).map some).map some
  return ⟨← t.toNat?, ← optFin? N v, ← parseRole r, ← optFin? N l, ← c.toNat?, ← parseEnts lg mem jt, mt', vt'⟩

def roleStr : Role → String | .follower => "F" | .candidate => "C" | .leader => "L"
def optStr {N : Nat} : Option (Fin N) → String | none => "-" | some x => toString x.val
def logStr (l : Log) : String :=
  if l.isEmpty then "-" else String.intercalate "/" (l.map fun e => s!"{e.term}.{e.data}")

/-- differences between the model's node and the observed projection -/
def diff {N : Nat} (n : Node1 N) (o : Obs N) : List String :=
  (if n.term ≠ o.term then [s!"term model={n.term} impl={o.term}"] else []) ++
  (if n.vote ≠ o.vote then [s!"vote model={optStr n.vote} impl={optStr o.vote}"] else []) ++
  (if n.role ≠ o.role then [s!"role model={roleStr n.role} impl={roleStr o.role}"] else []) ++
  (if n.lead ≠ o.lead then [s!"lead model={optStr n.lead} impl={optStr o.lead}"] else []) ++
  (if n.commit ≠ o.commit then [s!"commit model={n.commit} impl={o.commit}"] else []) ++
  (if n.log ≠ o.log then [s!"log model={logStr n.log} impl={logStr o.log}"] else []) ++
  (match o.matchI with
   | some ms => if n.role = .leader ∧ (List.finRange N).map n.matchI ≠ ms
                then [s!"match model={(List.finRange N).map n.matchI} impl={ms}"] else []
   | none => []) ++
  (match o.votes with
   | some vs => if n.role = .candidate ∧ (List.finRange N).map n.votes ≠ vs
                then [s!"votes model={(List.finRange N).map n.votes} impl={vs}"] else []
   | none => [])

def adopt {N : Nat} (n : Node1 N) (o : Obs N) : Node1 N :=
  let va : Array (Option Bool) := match o.votes with | some vs => vs.toArray | none => Array.ofFn n.votes
  let ma : Array Nat := match o.matchI with | some ms => ms.toArray | none => Array.ofFn n.matchI
  { term := o.term, vote := o.vote, role := o.role, lead := o.lead, log := o.log, commit := o.commit,
    votes := lookup va none, matchI := lookup ma 0 }

instance {N : Nat} : Inhabited (Node1 N) := ⟨⟨0, none, .follower, none, [], 0, fun _ => none, fun _ => 0⟩⟩

structure DSt (N : Nat) where
  nodes : Array (Node1 N)
  sent : Std.HashSet String := {}

/-- one handler call of an event: post-state, computed responses, and the unmodelled messages etcd sends with it -/
structure Call (N : Nat) where
  post : Node1 N
  resps : List (Msg1 N)
  extras : List String

def msgKind {N : Nat} : Msg1 N → String
| .vote .. => "vote" | .voteResp .. => "voteResp" | .app .. => "app" | .appResp .. => "appResp" | .hb .. => "hb" | .snap .. => "snap"

/-- which branch of `handle` a call took (evidence: branch coverage of the model by the generated schedules) -/
def branchOf {N : Nat} (pre : Node1 N) (inp : Input N) (post : Node1 N) (resps : List (Msg1 N)) : String :=
  let cm := if pre.commit < post.commit then "+commit" else ""
  match inp with
  | .hup => if pre.role = .leader then "hup/ignored-leader" else if post.role = .leader then "hup/won-single" else "hup/campaign"
  | .prop _ => if pre.role = .leader then "prop/append" else "prop/not-leader"
  | .selfAck => if pre.role = .leader then "selfAck" ++ cm else "selfAck/not-leader"
  | .beat => "beat"
  | .restart => "restart/was-" ++ roleStr pre.role
  | .snapStatus _ failed => "snapStatus/" ++ (if failed then "failure" else "finish") ++ (if pre.role = .leader then "" else "/not-leader")
  | .unreachable _ => "unreachable" ++ (if pre.role = .leader then "" else "/not-leader")
  | .recv m =>
    if m.term < pre.term then "recv/" ++ msgKind m ++ "/stale-term" else
    let hi := if pre.term < m.term then "/higher-term" ++ (if pre.role = .leader then "-deposes-leader" else "") else ""
    match m with
    | .vote .. => (match resps with
        | [.voteResp _ _ _ false] => "recv/vote/grant" | _ => "recv/vote/reject") ++ hi
    | .voteResp _ _ _ rej =>
        (if pre.role ≠ .candidate ∨ pre.term < m.term then "recv/voteResp/not-candidate"
         else if post.role = .leader then "recv/voteResp/won"
         else if post.role = .follower then "recv/voteResp/lost"
         else if rej then "recv/voteResp/pending-rejected" else "recv/voteResp/pending-granted") ++ hi
    | .app _ _ _ prev _ ents _ =>
        (match resps with
         | [] => "recv/app/ignored-leader"
         | [.appResp _ _ _ _ true] => "recv/app/reject"
         | _ => if pre.term = m.term ∧ prev < pre.commit ∨ (pre.term < m.term ∧ prev < pre.commit) then "recv/app/below-commit"
                else if post.log = pre.log then (if ents.isEmpty then "recv/app/accept-empty" else "recv/app/accept-already-held")
                else if pre.log.length ≤ post.log.length ∧ post.log.take pre.log.length = pre.log then "recv/app/accept-append"
                else "recv/app/accept-conflict-truncate") ++ cm ++ hi
    | .appResp _ _ _ _ rej =>
        (if pre.role ≠ .leader ∨ pre.term < m.term then "recv/appResp/not-leader"
         else if rej then "recv/appResp/rejected"
         else "recv/appResp/ack") ++ cm ++ hi
    | .hb .. => (if resps.isEmpty ∧ pre.role = .leader ∧ pre.term = m.term then "recv/hb/ignored-leader" else "recv/hb") ++ cm ++ hi
    | .snap _ _ _ k _ =>
        (if pre.role = .leader ∧ pre.term = m.term then "recv/snap/ignored-leader"
         else if k ≤ pre.commit then "recv/snap/ignore-old"
         else if post.log = pre.log then "recv/snap/fast-forward" else "recv/snap/restore") ++ hi

/-- `tracker.Progress` as `harness/raftsim.go` `progOf` writes it: `state,Match,Next,PendingSnapshot,ProbeSent,inflights` (etcd's indexes) -/
def parseProg (s : String) : Option Prog :=
  match s.splitOn "," with
  | [st, m, nx, ps, pb, fl] => do
      let st ← if st == "P" then some PState.probe else if st == "R" then some .replicate else if st == "S" then some .snapshot else none
      return ⟨st, ← m.toNat?, ← nx.toNat?, ← ps.toNat?, ← bool? pb, ← fl.toNat?⟩
  | _ => none

def progStr (p : Prog) : String :=
  let st := match p.state with | .probe => "P" | .replicate => "R" | .snapshot => "S"
  s!"{st},{p.matchI},{p.next},{p.pendingSnapshot},{if p.probeSent then 1 else 0},{p.inflights}"

/-- a report event (`snapst:<from>:<failed>:<pre>:<post>` / `unreach:<from>:<pre>:<post>`): the `Progress` record of `from` observed after the
    report must be `RS.reportProg` of the one observed before it (every field), the observed `Match` before it must be the model's `matchI from`
    (index shift 1: the harness's logs start with a snapshot at index 1), and only a node without a tracker entry may show none -/
def checkReport {N : Nat} (n : Node1 N) (src : Fin N) (mi : Input N) (pre post : String) : Except String String := do
  if pre == "-" || post == "-" then
    if n.role = .leader then throw s!"report: the model's node is a leader, the implementation shows no Progress for {src.val}"
    else return "no-progress"
  match parseProg pre, parseProg post with
  | some p, some q =>
    if n.role ≠ .leader then throw s!"report: the model's node is no leader, the implementation shows Progress {pre}"
    if p.matchI - 1 ≠ n.matchI src then throw s!"report: match[{src.val}] model={n.matchI src} impl={p.matchI - 1} before the report"
    let want := reportProg n p mi
    if want ≠ q then throw s!"progress[{src.val}] after the report: model={progStr want} impl={post} (before: {pre})"
    return (match p.state with | .probe => "from-probe" | .replicate => "from-replicate" | .snapshot => "from-snapshot") ++
      (if want.next ≠ p.next then "+next" else "")
  | _, _ => throw s!"unparsable progress {pre} / {post}"

/-- run the model inputs of one event; returns the calls performed, or an error text -/
def runInputs {N : Nat} (sent : Std.HashSet String) (i : Fin N) (n0 : Node1 N) (inputs : List String) :
    Except String (Node1 N × List (Call N) × List String) := do
  let mut n := n0
  let mut calls : List (Call N) := []
  let mut kinds : List String := []
  for inp in inputs do
    if inp == "noop" then
      kinds := kinds ++ ["noop"]
      continue
    let (mi, extraOf, kind) ← (do
      if inp == "hup" then pure (Input.hup, (fun (_ _ : Node1 N) => ([] : List String)), "hup")
      else if inp == "selfAck" then pure (Input.selfAck, (fun _ _ => []), "selfAck")
      else if inp == "beat" then pure (Input.beat, (fun _ _ => []), "beat")
      else if inp == "restart" then pure (Input.restart, (fun _ _ => []), "restart")
      else if inp.startsWith "snapst:" || inp.startsWith "unreach:" then
        match inp.splitOn ":" with
        | ["snapst", f, fl, pre, post] =>
          match fin? N f, bool? fl with
          | some src, some failed =>
            let mi := Input.snapStatus src failed
            let how ← checkReport n src mi pre post
            pure (mi, (fun _ _ => []), "report-snapshot-" ++ (if failed then "failure/" else "finish/") ++ how)
          | _, _ => throw s!"bad input {inp}"
        | ["unreach", f, pre, post] =>
          match fin? N f with
          | some src =>
            let mi := Input.unreachable src
            let how ← checkReport n src mi pre post
            pure (mi, (fun _ _ => []), "report-unreachable/" ++ how)
          | none => throw s!"bad input {inp}"
        | _ => throw s!"bad input {inp}"
      else if inp.startsWith "prop:" then
        match (inp.drop 5).toString.toNat? with
        | some v => pure (Input.prop v, (fun _ (post : Node1 N) =>
            match post.role, post.lead with
            | .follower, some d => [s!"propFwd,0,{i.val},{d.val},{v}"]
            | _, _ => []), "prop")
        | none => throw s!"bad input {inp}"
      else if inp.startsWith "recvprop:" then
        let txt := (inp.drop 9).toString
        if !sent.contains txt then throw s!"not-enabled: {txt} was never emitted" else
        match parseMsg N txt with
        | some (.propFwd src dst v) =>
          if dst ≠ i then throw s!"not-enabled: {txt} is not addressed to node {i.val}" else
          pure (Input.prop v, (fun _ (post : Node1 N) =>
            match post.role, post.lead with
            | .follower, some d => [s!"propFwd,0,{src.val},{d.val},{v}"]
            | _, _ => []), "recv-propFwd")
        | _ => throw s!"bad input {inp}"
      else if inp.startsWith "recvhbresp:" then
        let txt := (inp.drop 11).toString
        if !sent.contains txt then throw s!"not-enabled: {txt} was never emitted" else
        match parseMsg N txt with
        | some (.hbResp t _ dst) =>
          if dst ≠ i then throw s!"not-enabled: {txt} is not addressed to node {i.val}"
          else if n.term < t then throw s!"unmodelled: MsgHeartbeatResp with a higher term {t} > {n.term}"
          else pure (Input.beat, (fun _ _ => []), "recv-hbResp")
        | _ => throw s!"bad input {inp}"
      else if inp.startsWith "recv:" then
        let txt := (inp.drop 5).toString
        if !sent.contains txt then throw s!"not-enabled: {txt} was never emitted" else
        match parseMsg N txt with
        | some (.m x) =>
          if x.dst ≠ i then throw s!"not-enabled: {txt} is not addressed to node {i.val}" else
          let ex := fun (pre post : Node1 N) =>
            match x with
            | .hb t src _ _ => if pre.term ≤ t ∧ post.role ≠ .leader then [s!"hbResp,{post.term},{i.val},{src.val}"] else []
            | _ => []
          pure (Input.recv x, ex, "recv-" ++ msgKind x)
        | _ => throw s!"bad input {inp}"
      else throw s!"bad input {inp}" : Except String (Input N × (Node1 N → Node1 N → List String) × String))
    let r := handle i n mi
    let post := freeze r.1
    calls := calls ++ [⟨post, r.2, extraOf n post⟩]
    kinds := kinds ++ [kind, "br:" ++ branchOf n mi post r.2]
    n := post
  return (n, calls, kinds)

/-- check the messages observed during an event against the calls; returns error texts -/
def checkOuts {N : Nat} (i : Fin N) (calls : List (Call N)) (outs : List String) (mem : Bool := false) (jt : Bool := false) : List String := Id.run do
  let mut errs : List String := []
  let mut seen : List (Msg1 N) := []
  let mut seenX : List String := []
  for o in outs do
    match parseMsg N o mem jt with
    | some (.m x) =>
      seen := x :: seen
      if !(calls.any fun c => c.resps.contains x || leaderOutB c.post i x) then
        errs := errs ++ [s!"message {o} is neither a computed response nor valid leader traffic"]
    | some _ =>
      seenX := o :: seenX
      if !(calls.any fun c => c.extras.contains o) then
        errs := errs ++ [s!"unmodelled message {o} not expected here"]
    | none => errs := errs ++ [s!"unparsable message {o}"]
  -- the other direction: every response the model computed was really sent
  for c in calls do
    for r in c.resps do
      if !seen.contains r then errs := errs ++ [s!"model response {msgKind r} was not emitted by the implementation"]
    for x in c.extras do
      if !seenX.contains x then errs := errs ++ [s!"expected {x} was not emitted by the implementation"]
  return errs

structure Tot where
  lines : Nat := 0
  bad : Nat := 0
  schedules : Nat := 0
  events : Nat := 0
  calls : Nat := 0
  msgsChecked : Nat := 0
  kinds : Std.HashMap String Nat := {}
  qa : Nat := 0
  qd : Nat := 0
  conf : RQJ.Config := RQJ.Config.empty   -- Stage D: the model's tracker config of the current Changer sequence
  firstBadEvent : Option Nat := none   -- event number (within its schedule) of the first mismatch
  evInSched : Nat := 0

def Tot.bump (t : Tot) (k : String) : Tot := { t with kinds := t.kinds.insert k (t.kinds.getD k 0 + 1) }

/-- one `E` line; returns the new state and the list of mismatch texts -/
def eventLine {N : Nat} (st : DSt N) (fs : List String) : DSt N × List String × List String × Nat :=
  match fs with
  | [_, _kind, node, inputs, t, v, r, l, c, lg, mt, vt, out] =>
    match fin? N node, parseObs N t v r l c lg mt vt with
    | some i, some obs =>
      let outs := if out == "-" then [] else out.splitOn ";"
      let n0 := st.nodes[i.val]!
      let sent' := outs.foldl (fun s o => s.insert o) st.sent
      match runInputs st.sent i n0 (inputs.splitOn ";") with
      | .error e => ({ nodes := st.nodes.set! i.val (adopt n0 obs), sent := sent' }, [e], [], outs.length)
      | .ok (n, calls, kinds) =>
        let errs := diff n obs ++ checkOuts i calls outs
        let n' := if errs.isEmpty then n else adopt n obs
        ({ nodes := st.nodes.set! i.val n', sent := sent' }, errs, kinds, outs.length)
    | _, _ => (st, ["unparsable event line"], [], 0)
  | _ => (st, ["unparsable event line"], [], 0)

def stageAQ (n vals res : String) : List String :=
  match n.toNat?, (vals.splitOn ",").mapM String.toNat?, res.toNat? with
  | some N, some vs, some r =>
    if vs.length ≠ N then ["bad Q line"] else
    let a := vs.toArray
    let f : Fin N → Nat := lookup a 0
    (if committedIndex vs ≠ r then [s!"CommittedIndex: RQ.committedIndex={committedIndex vs} impl={r}"] else []) ++
    (if qidx f ≠ r then [s!"CommittedIndex: qidx={qidx f} impl={r}"] else [])
  | _, _, _ => ["bad Q line"]

def stageAV (n votes res : String) : List String :=
  match n.toNat?, (votes.splitOn ",").mapM (fun x => if x == "n" then some none else (bool? x).map some) with
  | some N, some vs =>
    if vs.length ≠ N then ["bad V line"] else
    let a := vs.toArray
    let nd : Node1 N := ⟨0, none, .candidate, none, [], 0, lookup a none, fun _ => 0⟩
    let m := if wonVotes nd then "won" else if lostVotes nd then "lost" else "pending"
    if m ≠ res then [s!"VoteResult: model={m} impl={res}"] else []
  | _, _ => ["bad V line"]

/-! ### Stage D: quorum + confchange (model: `RQJoint.lean`, theorems: `Props/C15Conf.lean`) -/

def idList? (s : String) : Option (List Nat) :=
  if s == "-" then some [] else (s.splitOn ",").mapM String.toNat?

def idSet? (s : String) : Option (Finset Nat) := (idList? s).map fun l => l.toFinset

/-- `id:value,...` -/
def pairs? (s : String) : Option (List (Nat × Nat)) :=
  if s == "-" then some [] else
  (s.splitOn ",").mapM fun f =>
    match f.splitOn ":" with
    | [a, b] => match a.toNat?, b.toNat? with
      | some a, some b => some (a, b)
      | _, _ => none
    | _ => none

def lookupPairs (ps : List (Nat × Nat)) (id : Nat) : Option Nat := (ps.find? fun p => p.1 == id).map (·.2)

def idsStr (s : Finset Nat) : String :=
  let l := s.sort (· ≤ ·)
  if l.isEmpty then "-" else String.intercalate "," (l.map toString)

def idxStr : RQJ.Idx → String | none => "inf" | some v => toString v

def vrStr : RQJ.VoteResult → String | .won => "won" | .lost => "lost" | .pending => "pending"

/-- the canonical rendering of harness/quorum.go `fmtTrackerCfg`; the last field is the DERIVED progress map -/
def cfgStr (c : RQJ.Config) : String :=
  let all := ((c.voters ∪ c.outgoing ∪ c.learners ∪ c.learnersNext).filter fun id => RQJ.hasProgress c id).sort (· ≤ ·)
  let prs := if all.isEmpty then "-" else
    String.intercalate "," (all.map fun id => toString id ++ (if RQJ.isLearnerPr c id then "l" else ""))
  s!"{idsStr c.voters} {idsStr c.outgoing} {idsStr c.learners} {idsStr c.learnersNext} {if c.autoLeave then "1" else "0"} {prs}"

/-- the implementation's config of a `CI`/`CC` line (to resynchronise after a mismatch) -/
def parseCfg (v0 v1 l ln al : String) : Option RQJ.Config := do
  return ⟨← idSet? v0, ← idSet? v1, ← idSet? l, ← idSet? ln, ← bool? al⟩

def parseChanges (s : String) : Option (List RQJ.Change) :=
  if s == "-" then some [] else
  (s.splitOn ",").mapM fun f =>
    let t := match (f.take 1).toString with
      | "a" => some RQJ.ChangeType.addNode | "l" => some .addLearnerNode | "r" => some .removeNode
      | "u" => some .updateNode | "x" => some .other | _ => none
    match t, (f.drop 1).toString.toNat? with
    | some t, some id => some ⟨t, id⟩
    | _, _ => none

def stageDJQ (a b acks res : String) : List String :=
  match idSet? a, idSet? b, pairs? acks with
  | some c0, some c1, some ps =>
    let m := idxStr (RQJ.JointConfig.committedIndex ⟨c0, c1⟩ (lookupPairs ps))
    if m ≠ res then [s!"JointCommittedIndex: model={m} impl={res}"] else []
  | _, _, _ => ["bad JQ line"]

def stageDJV (a b votes res : String) : List String :=
  match idSet? a, idSet? b, pairs? votes with
  | some c0, some c1, some ps =>
    let m := vrStr (RQJ.JointConfig.voteResult ⟨c0, c1⟩ (fun id => (lookupPairs ps id).map (· != 0)))
    if m ≠ res then [s!"JointVoteResult: model={m} impl={res}"] else []
  | _, _, _ => ["bad JV line"]

/-- compare one Changer outcome; returns the config to continue from, the errors and the evidence counters -/
def changerOutcome (what : String) (cur : RQJ.Config) (r : Except String RQJ.Config) (onErr : RQJ.Config)
    (st : String) (implCfg : List String) : RQJ.Config × List String × List String :=
  let impl := String.intercalate " " implCfg
  let (next, ms) := match r with
    | .ok c => (c, "ok")
    | .error _ => (onErr, "err")
  let errs :=
    (if ms ≠ st then [s!"{what}: model={ms}{match r with | .error e => " (" ++ e ++ ")" | .ok _ => ""} impl={st}"] else []) ++
    (if cfgStr next ≠ impl then [s!"{what}: config model=[{cfgStr next}] impl=[{impl}]"] else [])
  let next' := if errs.isEmpty then next else
    match implCfg with
    | [v0, v1, l, ln, al, _] => (parseCfg v0 v1 l ln al).getD cur
    | _ => cur
  (next', errs, [s!"d:{what}/{st}", if RQJ.joint next' then "d:state-after/joint" else
                   if next'.voters = ∅ then "d:state-after/empty" else "d:state-after/non-joint"])

def stageDCI (cur : RQJ.Config) (fs : List String) : RQJ.Config × List String × List String :=
  match fs with
  | ["CI", "empty"] => (RQJ.Config.empty, [], ["d:CI/empty"])
  | ["CI", "restore", v, l, vo, ln, al, st, c0, c1, c2, c3, c4, c5, _] =>
    match idList? v, idList? l, idList? vo, idList? ln, bool? al with
    | some v, some l, some vo, some ln, some al =>
      changerOutcome ("restore" ++ (if vo.isEmpty then "" else "-joint")) cur (RQJ.restore ⟨v, l, vo, ln, al⟩) RQJ.Config.empty st [c0, c1, c2, c3, c4, c5]
    | _, _, _, _, _ => (cur, ["bad CI line"], [])
  | _ => (cur, ["bad CI line"], [])

def stageDCC (cur : RQJ.Config) (fs : List String) : RQJ.Config × List String × List String :=
  match fs with
  | ["CC", op, chg, st, c0, c1, c2, c3, c4, c5, _] =>
    match parseChanges chg with
    | some ccs =>
      let r? : Option (Except String RQJ.Config) :=
        if op == "simple" then some (RQJ.simple cur ccs)
        else if op == "enter0" then some (RQJ.enterJoint false cur ccs)
        else if op == "enter1" then some (RQJ.enterJoint true cur ccs)
        else if op == "leave" then some (RQJ.leaveJoint cur)
        else none
      match r? with
      | some r =>
        let pre := if RQJ.joint cur then "joint" else "non-joint"
        let (n, e, k) := changerOutcome (if op == "leave" || op == "simple" then op else "enter") cur r cur st [c0, c1, c2, c3, c4, c5]
        (n, e, k ++ [s!"d:{op}-on-{pre}/{st}", s!"d:changes/{ccs.length}"] ++
          (ccs.map fun cc => "d:change/" ++ (if cc.id = 0 then "id0" else match cc.typ with
            | .addNode => "AddNode" | .addLearnerNode => "AddLearnerNode" | .removeNode => "RemoveNode"
            | .updateNode => "UpdateNode" | .other => "outside-enum")))
      | none => (cur, ["bad CC line"], [])
    | none => (cur, ["bad CC line"], [])
  | _ => (cur, ["bad CC line"], [])

/-! ### member schedules (`member`, `member-partition`): every event replayed on the config-aware handler `RHC.handleC`

    The schedule starts with `RC <voters>` (the initial configuration); an `E` line carries three more fields: the node's applied
    index, the voters and the learners of its tracker config.  Inputs besides those of the fixed-membership schedules:
    `apply:k` (the application applied the committed entries up to k: `ApplyConfChange` for the conf changes, then `Advance`),
    `props:p1+p2..` (a proposal message with conf-change entries), `restart:a` (restart from storage, whose snapshot is at index a). -/
structure DStC (N : Nat) where
  c0 : RQJ.Config
  nodes : Array (RHC.NodeC N)
  sent : Std.HashSet String := {}

instance {N : Nat} : Inhabited (RHC.NodeC N) := ⟨⟨default, 0, 0⟩⟩

def fwdExtra {N : Nat} (src : Fin N) (raw : String) (post : RHC.NodeC N) : List String :=
  match post.n.role, post.n.lead with
  | .follower, some d => [s!"propFwd,0,{src.val},{d.val},{raw}"]
  | _, _ => []

def runInputsC {N : Nat} (c0 : RQJ.Config) (sent : Std.HashSet String) (i : Fin N) (x0 : RHC.NodeC N) (inputs : List String) :
    Except String (RHC.NodeC N × List (Call N) × List String) := do
  let mut x := x0
  let mut calls : List (Call N) := []
  let mut kinds : List String := []
  for inp in inputs do
    if inp == "noop" then
      kinds := kinds ++ ["noop"]
      continue
    let none' : RHC.NodeC N → RHC.NodeC N → List String := fun _ _ => []
    let (mi, extraOf, kind) ← (do
      if inp == "hup" then pure (RHC.InputC.hup, none', "c-hup")
      else if inp == "selfAck" then pure (RHC.InputC.selfAck, none', "c-selfAck")
      else if inp == "beat" then pure (RHC.InputC.beat, none', "c-beat")
      else if inp.startsWith "restart:" then
        match (inp.drop 8).toString.toNat? with
        | some a => pure (RHC.InputC.restart a, none', "c-restart")
        | none => throw s!"bad input {inp}"
      else if inp.startsWith "apply:" then
        match (inp.drop 6).toString.toNat? with
        | some k => pure (RHC.InputC.applyTo k, none', "c-apply")
        | none => throw s!"bad input {inp}"
      else if inp.startsWith "prop:" then
        let raw := (inp.drop 5).toString
        match raw.toNat? with
        | some v => pure (RHC.InputC.prop [encD v], (fun _ post => fwdExtra i raw post), "c-prop")
        | none => throw s!"bad input {inp}"
      else if inp.startsWith "props:" then
        let raw := (inp.drop 6).toString
        match (raw.splitOn "+").mapM String.toNat? with
        | some vs => pure (RHC.InputC.prop (vs.map encD), (fun _ post => fwdExtra i raw post), "c-props")
        | none => throw s!"bad input {inp}"
      else if inp.startsWith "recvprop:" then
        let txt := (inp.drop 9).toString
        if !sent.contains txt then throw s!"not-enabled: {txt} was never emitted" else
        match parseMsg N txt true with
        | some (.propFwdC src dst vs raw) =>
          if dst ≠ i then throw s!"not-enabled: {txt} is not addressed to node {i.val}" else
          pure (RHC.InputC.prop vs, (fun _ post => fwdExtra src raw post), "c-recv-propFwd")
        | _ => throw s!"bad input {inp}"
      else if inp.startsWith "recvhbresp:" then
        let txt := (inp.drop 11).toString
        if !sent.contains txt then throw s!"not-enabled: {txt} was never emitted" else
        match parseMsg N txt true with
        | some (.hbResp t src dst) =>
          if dst ≠ i then throw s!"not-enabled: {txt} is not addressed to node {i.val}"
          else if RHC.hasProg (RHC.cfgOf c0 x) src && x.n.term < t then throw s!"unmodelled: MsgHeartbeatResp with a higher term {t} > {x.n.term}"
          else pure (RHC.InputC.beat, none', "c-recv-hbResp")
        | _ => throw s!"bad input {inp}"
      else if inp.startsWith "recv:" then
        let txt := (inp.drop 5).toString
        if !sent.contains txt then throw s!"not-enabled: {txt} was never emitted" else
        match parseMsg N txt true with
        | some (.m m) =>
          if m.dst ≠ i then throw s!"not-enabled: {txt} is not addressed to node {i.val}" else
          let ex := fun (pre post : RHC.NodeC N) =>
            match m with
            | .hb t src _ _ => if pre.n.term ≤ t ∧ post.n.role ≠ .leader then [s!"hbResp,{post.n.term},{i.val},{src.val}"] else []
            | _ => []
          pure (RHC.InputC.recv m, ex, "c-recv-" ++ msgKind m)
        | _ => throw s!"bad input {inp}"
      else throw s!"bad input {inp}" : Except String (RHC.InputC N × (RHC.NodeC N → RHC.NodeC N → List String) × String))
    let r := RHC.handleC c0 i x mi
    let post : RHC.NodeC N := { r.1 with n := freeze r.1.n }
    calls := calls ++ [⟨post.n, r.2, extraOf x post⟩]
    kinds := kinds ++ [kind]
    if x.n.commit < post.n.commit then kinds := kinds ++ [kind ++ "+commit"]
    if RHC.cfgOf c0 x ≠ RHC.cfgOf c0 post then kinds := kinds ++ [kind ++ "+config"]
    x := post
  return (x, calls, kinds)

def eventLineC {N : Nat} (st : DStC N) (fs : List String) : DStC N × List String × List String × Nat :=
  match fs with
  | [_, _kind, node, inputs, t, v, r, l, c, lg, mt, vt, out, ap, vs, ls] =>
    match fin? N node, parseObs N t v r l c lg mt vt true, ap.toNat?, idSet? vs, idSet? ls with
    | some i, some obs, some ap, some vs, some ls =>
      let outs := if out == "-" then [] else out.splitOn ";"
      let x0 := st.nodes[i.val]!
      let sent' := outs.foldl (fun s o => s.insert o) st.sent
      let adoptC : RHC.NodeC N := { n := adopt x0.n obs, applied := ap, pend := x0.pend }
      match runInputsC st.c0 st.sent i x0 (inputs.splitOn ";") with
      | .error e => ({ st with nodes := st.nodes.set! i.val adoptC, sent := sent' }, [e], [], outs.length)
      | .ok (x, calls, kinds) =>
        let c := RHC.cfgOf st.c0 x
        let errs := diff x.n obs ++ checkOuts i calls outs true ++
          (if x.applied ≠ ap then [s!"applied model={x.applied} impl={ap}"] else []) ++
          (if c.voters ≠ vs then [s!"voters model={idsStr c.voters} impl={idsStr vs}"] else []) ++
          (if c.learners ≠ ls then [s!"learners model={idsStr c.learners} impl={idsStr ls}"] else [])
        let x' := if errs.isEmpty then x else adoptC
        ({ st with nodes := st.nodes.set! i.val x', sent := sent' }, errs, kinds, outs.length)
    | _, _, _, _, _ => (st, ["unparsable member event line"], [], 0)
  | _ => (st, ["unparsable member event line"], [], 0)

/-! Stage D, protocol level (`CF` / `GT` / `HP` lines, written by the member-* profiles of `harness raftsim`): the configuration part of
    the model `Raft/RSC.lean` against the real `RawNode` —
    `CF id index type node  votersBefore learnersBefore outgoingBefore  votersAfter learnersAfter outgoingAfter`: one applied conf-change
       entry moves the node's tracker config as `RSC.applyChange` (the fold step of `RSC.cfgAt`) says;
    `GT id applied pendBefore lastBefore n types pendAfter`: a proposal message with n conf-change entries stepped on a leader — which
       entries are appended as conf changes and which are replaced by empty entries, and the new `pendingConfIndex`, as `RSC.gateSeq`;
    `HP id role voters learners flags campaigned`: `Campaign()` on a node — it campaigns iff `RSC.campaignGate` (not leader, voter of its
       own config, no conf-change entry in (applied, committed]; `flags` are the conf-change bits of those entries). -/
def ccTypeOf : Nat → Option RQJ.ChangeType
  | 0 => some .addNode | 1 => some .removeNode | 2 => some .updateNode | 3 => some .addLearnerNode | _ => none

def stageDCF (fs : List String) : List String × List String :=
  match fs with
  | ["CF", _, _, ty, node, vb, lb, ob, va, la, oa] =>
    match ty.toNat?.bind ccTypeOf, node.toNat?, idSet? vb, idSet? lb, idSet? ob, idSet? va, idSet? la, idSet? oa with
    | some ct, some nd, some vb, some lb, some ob, some va, some la, some oa =>
      let c : RQJ.Config := ⟨vb, ob, lb, ∅, false⟩
      let m := RSC.applyChange c ⟨ct, nd⟩
      let errs := (if m.voters = va then [] else [s!"CF voters: model {idsStr m.voters} impl {idsStr va}"]) ++
        (if m.learners = la then [] else [s!"CF learners: model {idsStr m.learners} impl {idsStr la}"]) ++
        (if m.outgoing = oa then [] else [s!"CF outgoing: model {idsStr m.outgoing} impl {idsStr oa}"])
      (errs, ["d:CF", if m.voters = vb ∧ m.learners = lb then "d:CF/unchanged" else "d:CF/changed"])
    | _, _, _, _, _, _, _, _ => (["bad CF line"], [])
  | _ => (["bad CF line"], [])

def stageDGT (fs : List String) : List String × List String :=
  match fs with
  | ["GT", _, applied, pend, last, n, types, pendAfter] =>
    match applied.toNat?, pend.toNat?, last.toNat?, n.toNat?, pendAfter.toNat? with
    | some a, some p, some l, some n, some pa =>
      -- every proposed payload is a conf change (payload 1 = AddNode of id 0 stands for "some conf change": the gate looks at the kind only)
      let (outs, p') := RSC.gateSeq a p l (List.replicate n 1)
      let m := String.ofList (outs.map fun v => if RSC.isConfData v then '1' else '0')
      let obs := if types == "-" then "" else types
      let errs := (if m == obs then [] else [s!"GT appended kinds: model {m} impl {obs}"]) ++
        (if p' == pa then [] else [s!"GT pendingConfIndex: model {p'} impl {pa}"])
      (errs, ["d:GT", if m.contains '0' then "d:GT/refused" else "d:GT/all-accepted"] ++ (if n > 1 then ["d:GT/batched"] else []))
    | _, _, _, _, _ => (["bad GT line"], [])
  | _ => (["bad GT line"], [])

def stageDHP (fs : List String) : List String × List String :=
  match fs with
  | ["HP", id, role, voters, learners, flags, camp] =>
    match id.toNat?, role.toNat?, idSet? voters, idSet? learners, bool? camp with
    | some id, some role, some vs, some ls, some camp =>
      let pend := (if flags == "-" then [] else flags.toList).map (· == '1')
      let m := RSC.campaignGate (role == 2) id ⟨vs, ∅, ls, ∅, false⟩ pend
      ((if m == camp then [] else [s!"HP campaign: model {m} impl {camp}"]),
       ["d:HP", if m then "d:HP/campaigns" else if role == 2 then "d:HP/leader" else if pend.any (· == true) then "d:HP/refused-pending-conf" else "d:HP/refused-not-voter"])
    | _, _, _, _, _ => (["bad HP line"], [])
  | _ => (["bad HP line"], [])

/-! Stage D, last step (`JF` / `JG` / `JA` / `JH` / `JP` lines, written by `harness raftsim -stageJ`, harness/raftjoint.go): the configuration
    part of the JOINT model `Raft/RSJ.lean` against the real `RawNode` driven with ConfChangeV2 proposals of every shape —
    `JF`: one applied conf-change entry moves the node's tracker config (all five fields) as `RSJ.applyCC`;
    `JG`: a proposal message stepped on the leader: which entries stay conf changes, the new `pendingConfIndex` = `RSJ.gateSeq` (etcd's three reasons);
    `JA`: one `Advance()`: the leader appends the empty ConfChangeV2 iff AutoLeave ∧ oldApplied ≤ pend ≤ newApplied, and then the model's
          `autoLeave` step is enabled (AutoLeave ∧ pend ≤ applied) and `RSJ.gateJ` accepts a leave at that point;
    `JH`: `Campaign()`: campaigns iff `RSJ.campaignGate` (promotable = has a Progress and is not a learner);
    `JP`: the probe of `RSJ.enter_empty_passes_gate_and_is_refused_by_changer`. -/
def parseCC (desc : String) : Option RSJ.CC :=
  match desc.splitOn ":" with
  | [k, chg] =>
    match parseChanges chg with
    | some ccs =>
      if k == "l" then (if ccs.isEmpty then some .leave else none)
      else if k == "e0" then some (.enter false ccs)
      else if k == "e1" then some (.enter true ccs)
      else if k == "s" then (match ccs with | [c] => some (.single c) | _ => none)
      else none
    | none => none
  | _ => none

def cfg5Str (c : RQJ.Config) : String :=
  s!"{idsStr c.voters} {idsStr c.outgoing} {idsStr c.learners} {idsStr c.learnersNext} {if c.autoLeave then "1" else "0"}"

/-! Stage D, step 7: the `member-joint` / `member-joint-partition` schedules (header `RJ <voters>`) are replayed event by event on the
    executable joint-configuration handler `RHJ.handleJ` (`Raft/RHJ.lean`; `RHJ.runJ_safe`).  Entries are decoded by `encDJ`; besides
    the inputs of the member schedules there is `adv:o` (`Advance` after committed entries were applied; `o` = `raftLog.applied`
    before it: the leader's automatic leave).  An `E` line carries seven more fields than a fixed-membership one: applied index,
    voters, learners, outgoing voters, `LearnersNext`, `AutoLeave`, `pendingConfIndex` (compared on a leader). -/
structure DStJ (N : Nat) where
  c0 : RQJ.Config
  nodes : Array (RHC.NodeC N)
  sent : Std.HashSet String := {}

def runInputsJ {N : Nat} (c0 : RQJ.Config) (sent : Std.HashSet String) (i : Fin N) (x0 : RHC.NodeC N) (inputs : List String) :
    Except String (RHC.NodeC N × List (Call N) × List String) := do
  let mut x := x0
  let mut calls : List (Call N) := []
  let mut kinds : List String := []
  for inp in inputs do
    if inp == "noop" then
      kinds := kinds ++ ["noop"]
      continue
    let none' : RHC.NodeC N → RHC.NodeC N → List String := fun _ _ => []
    let (mi, extraOf, kind) ← (do
      if inp == "hup" then pure (RHJ.InputJ.hup, none', "j-hup")
      else if inp == "selfAck" then pure (RHJ.InputJ.selfAck, none', "j-selfAck")
      else if inp == "beat" then pure (RHJ.InputJ.beat, none', "j-beat")
      else if inp.startsWith "restart:" then
        match (inp.drop 8).toString.toNat? with
        | some a => pure (RHJ.InputJ.restart a, none', "j-restart")
        | none => throw s!"bad input {inp}"
      else if inp.startsWith "apply:" then
        match (inp.drop 6).toString.toNat? with
        | some k => pure (RHJ.InputJ.applyTo k, none', "j-apply")
        | none => throw s!"bad input {inp}"
      else if inp.startsWith "adv:" then
        match (inp.drop 4).toString.toNat? with
        | some o => pure (RHJ.InputJ.advance o, none', "j-advance")
        | none => throw s!"bad input {inp}"
      else if inp.startsWith "prop:" then
        let raw := (inp.drop 5).toString
        match raw.toNat? with
        | some v => pure (RHJ.InputJ.prop [encDJ v], (fun _ post => fwdExtra i raw post), "j-prop")
        | none => throw s!"bad input {inp}"
      else if inp.startsWith "props:" then
        let raw := (inp.drop 6).toString
        match (raw.splitOn "+").mapM String.toNat? with
        | some vs => pure (RHJ.InputJ.prop (vs.map encDJ), (fun _ post => fwdExtra i raw post), "j-props")
        | none => throw s!"bad input {inp}"
      else if inp.startsWith "recvprop:" then
        let txt := (inp.drop 9).toString
        if !sent.contains txt then throw s!"not-enabled: {txt} was never emitted" else
        match parseMsg N txt true true with
        | some (.propFwdC src dst vs raw) =>
          if dst ≠ i then throw s!"not-enabled: {txt} is not addressed to node {i.val}" else
          pure (RHJ.InputJ.prop vs, (fun _ post => fwdExtra src raw post), "j-recv-propFwd")
        | _ => throw s!"bad input {inp}"
      else if inp.startsWith "recvhbresp:" then
        let txt := (inp.drop 11).toString
        if !sent.contains txt then throw s!"not-enabled: {txt} was never emitted" else
        match parseMsg N txt true true with
        | some (.hbResp t src dst) =>
          if dst ≠ i then throw s!"not-enabled: {txt} is not addressed to node {i.val}"
          else if RHJ.hasProg (RHJ.cfgOf c0 x) src && x.n.term < t then throw s!"unmodelled: MsgHeartbeatResp with a higher term {t} > {x.n.term}"
          else pure (RHJ.InputJ.beat, none', "j-recv-hbResp")
        | _ => throw s!"bad input {inp}"
      else if inp.startsWith "recv:" then
        let txt := (inp.drop 5).toString
        if !sent.contains txt then throw s!"not-enabled: {txt} was never emitted" else
        match parseMsg N txt true true with
        | some (.m m) =>
          if m.dst ≠ i then throw s!"not-enabled: {txt} is not addressed to node {i.val}" else
          let ex := fun (pre post : RHC.NodeC N) =>
            match m with
            | .hb t src _ _ => if pre.n.term ≤ t ∧ post.n.role ≠ .leader then [s!"hbResp,{post.n.term},{i.val},{src.val}"] else []
            | _ => []
          pure (RHJ.InputJ.recv m, ex, "j-recv-" ++ msgKind m)
        | _ => throw s!"bad input {inp}"
      else throw s!"bad input {inp}" : Except String (RHJ.InputJ N × (RHC.NodeC N → RHC.NodeC N → List String) × String))
    let r := RHJ.handleJ c0 i x mi
    let post : RHC.NodeC N := { r.1 with n := freeze r.1.n }
    calls := calls ++ [⟨post.n, r.2, extraOf x post⟩]
    kinds := kinds ++ [kind]
    if x.n.commit < post.n.commit then kinds := kinds ++ [kind ++ "+commit"]
    if RHJ.cfgOf c0 x ≠ RHJ.cfgOf c0 post then
      kinds := kinds ++ [kind ++ "+config", kind ++ (if RQJ.joint (RHJ.cfgOf c0 post) then "+config-now-joint" else "+config-now-simple")]
    if kind == "j-advance" ∧ x.n.log.length < post.n.log.length then kinds := kinds ++ ["j-advance+autoleave-appended"]
    if kind == "j-props" ∨ kind == "j-recv-propFwd" then
      for e in post.n.log.drop x.n.log.length do
        kinds := kinds ++ [if RSJ.isConfData e.data then "j-gate/conf-change-appended" else "j-gate/normal-or-refused"]
    match mi with
    | .prop vs =>
      if x.n.role = .leader ∧ RHJ.hasProg (RHJ.cfgOf c0 x) i then
        match vs.filterMap RSJ.ccOf with
        | cc :: _ =>
          kinds := kinds ++ [match RSJ.refusal x.applied x.pend (RQJ.joint (RHJ.cfgOf c0 x)) cc with
            | none => "j-gate/first/accepted"
            | some r => if r.startsWith "possible" then "j-gate/first/refused-pending" else if r.startsWith "must" then "j-gate/first/refused-joint"
                        else "j-gate/first/refused-not-joint"]
        | [] => pure ()
    | _ => pure ()
    if (kind == "j-hup") ∧ x.n.term < post.n.term ∧ RQJ.joint (RHJ.cfgOf c0 x) then kinds := kinds ++ ["j-hup+campaigns-joint"]
    if (kind == "j-selfAck" ∨ kind == "j-recv-appResp") ∧ x.n.commit < post.n.commit ∧ RQJ.joint (RHJ.cfgOf c0 x) then kinds := kinds ++ ["j-commit-by-joint-quorum"]
    if kind == "j-recv-voteResp" ∧ x.n.role = .candidate ∧ post.n.role = .leader ∧ RQJ.joint (RHJ.cfgOf c0 x) then kinds := kinds ++ ["j-won-by-joint-quorum"]
    x := post
  return (x, calls, kinds)

def eventLineJ {N : Nat} (st : DStJ N) (fs : List String) : DStJ N × List String × List String × Nat :=
  match fs with
  | [_, _kind, node, inputs, t, v, r, l, c, lg, mt, vt, out, ap, vs, ls, os, lns, al, pd] =>
    match fin? N node, parseObs N t v r l c lg mt vt true true, ap.toNat?, parseCfg vs os ls lns al, pd.toNat? with
    | some i, some obs, some ap, some oc, some pd =>
      let outs := if out == "-" then [] else out.splitOn ";"
      let x0 := st.nodes[i.val]!
      let sent' := outs.foldl (fun s o => s.insert o) st.sent
      let adoptC : RHC.NodeC N := { n := adopt x0.n obs, applied := ap, pend := pd }
      match runInputsJ st.c0 st.sent i x0 (inputs.splitOn ";") with
      | .error e => ({ st with nodes := st.nodes.set! i.val adoptC, sent := sent' }, [e], [], outs.length)
      | .ok (x, calls, kinds) =>
        let c := RHJ.cfgOf st.c0 x
        let errs := diff x.n obs ++ checkOuts i calls outs true true ++
          (if x.applied ≠ ap then [s!"applied model={x.applied} impl={ap}"] else []) ++
          (if c ≠ oc then [s!"config model=[{cfg5Str c}] impl=[{cfg5Str oc}]"] else []) ++
          (if x.n.role = .leader ∧ x.pend ≠ pd then [s!"pendingConfIndex model={x.pend} impl={pd}"] else [])
        let x' := if errs.isEmpty then x else adoptC
        ({ st with nodes := st.nodes.set! i.val x', sent := sent' }, errs, kinds, outs.length)
    | _, _, _, _, _ => (st, ["unparsable member-joint event line"], [], 0)
  | _ => (st, ["unparsable member-joint event line"], [], 0)


def stageJF (fs : List String) : List String × List String :=
  match fs with
  | ["JF", _, _, desc, v0, v1, l, ln, al, w0, w1, m, mn, bl] =>
    match parseCC desc, parseCfg v0 v1 l ln al, parseCfg w0 w1 m mn bl with
    | some cc, some before, some after =>
      let r := RSJ.applyCC before cc
      let errs := if r = after then [] else [s!"JF config: model [{cfg5Str r}] impl [{cfg5Str after}]"]
      let kind := match cc with | .single _ => "simple" | .enter false _ => "enter-explicit" | .enter true _ => "enter-autoleave" | .leave => "leave"
      (errs, ["d:JF", "d:JF/" ++ kind, if r = before then "d:JF/unchanged" else if RQJ.joint r then "d:JF/now-joint" else "d:JF/now-simple"])
    | _, _, _ => (["bad JF line"], [])
  | _ => (["bad JF line"], [])

def jgPayload : Char → Option Nat
  | 'C' => some 1 | 'L' => some 4 | 'E' => some 5 | 'I' => some 6 | 'N' => some 0 | _ => none

def stageJG (fs : List String) : List String × List String :=
  match fs with
  | ["JG", _, applied, pend, last, joint, descs, kinds, pendAfter] =>
    match applied.toNat?, pend.toNat?, last.toNat?, bool? joint, descs.toList.mapM jgPayload, pendAfter.toNat? with
    | some a, some p, some l, some j, some vs, some pa =>
      let (outs, p') := RSJ.gateSeq a j p l vs
      let m := String.ofList (outs.map fun v => if RSJ.isConfData v then '1' else '0')
      let errs := (if m == kinds then [] else [s!"JG appended kinds: model {m} impl {kinds}"]) ++
        (if p' == pa then [] else [s!"JG pendingConfIndex: model {p'} impl {pa}"])
      -- the reason the FIRST conf change of the message met
      let first := match vs.filterMap RSJ.ccOf with
        | cc :: _ => (match RSJ.refusal a p j cc with
          | none => "accepted"
          | some r => if r.startsWith "possible" then "refused-pending" else if r.startsWith "must" then "refused-joint" else "refused-not-joint")
        | [] => "no-conf-change"
      (errs, ["d:JG", "d:JG/" ++ first] ++ (if vs.length > 1 then ["d:JG/batched"] else []))
    | _, _, _, _, _, _ => (["bad JG line"], [])
  | _ => (["bad JG line"], [])

def stageJA (fs : List String) : List String × List String :=
  match fs with
  | ["JA", _, ldr, al, oldA, newA, pend, app, pendAfter, last] =>
    match bool? ldr, bool? al, oldA.toNat?, newA.toNat?, pend.toNat?, bool? app, pendAfter.toNat?, last.toNat? with
    | some ldr, some al, some oa, some na, some p, some app, some pa, some l =>
      let etcdGuard := al && decide (oa ≤ p) && decide (p ≤ na) && ldr
      let modelGuard := al && decide (p ≤ na) && ldr
      let errs := (if app == etcdGuard then [] else [s!"JA appended: etcd's guard {etcdGuard} impl {app}"]) ++
        (if app && !modelGuard then ["JA: appended although the model's autoLeave step is not enabled"] else []) ++
        (if app && RSJ.gateJ na p true RSJ.leaveData != RSJ.leaveData then ["JA: appended although the gate would refuse a leave"] else []) ++
        (if app && pa != l + 1 then [s!"JA pendingConfIndex: model {l + 1} impl {pa}"] else []) ++
        (if !app && pa != p then [s!"JA pendingConfIndex changed without an append: {p} -> {pa}"] else [])
      (errs, ["d:JA", if app then "d:JA/appended" else if al && ldr then "d:JA/autoleave-not-yet" else "d:JA/nothing"])
    | _, _, _, _, _, _, _, _ => (["bad JA line"], [])
  | _ => (["bad JA line"], [])

def stageJH (fs : List String) : List String × List String :=
  match fs with
  | ["JH", id, role, v0, v1, l, ln, al, flags, camp] =>
    match id.toNat?, role.toNat?, parseCfg v0 v1 l ln al, bool? camp with
    | some id, some role, some c, some camp =>
      let pend := (if flags == "-" then [] else flags.toList).map (· == '1')
      let m := RSJ.campaignGate (role == 2) id c pend
      ((if m == camp then [] else [s!"JH campaign: model {m} impl {camp}"]),
       ["d:JH", if m then (if RQJ.joint c then "d:JH/campaigns-joint" else "d:JH/campaigns") else if role == 2 then "d:JH/leader"
          else if pend.any (· == true) then "d:JH/refused-pending-conf" else "d:JH/refused-not-promotable"] ++
        (if m && id ∉ c.voters then ["d:JH/campaigns-outgoing-only"] else []))
    | _, _, _, _ => (["bad JH line"], [])
  | _ => (["bad JH line"], [])

def stageJP (fs : List String) : List String × List String :=
  match fs with
  | ["JP", al, v0, v1, l, ln, bl, passed, panicked] =>
    match bool? al, parseCfg v0 v1 l ln bl, bool? passed, bool? panicked with
    | some al, some c, some passed, some panicked =>
      let mPass := (RSJ.refusal 0 0 (RQJ.joint c) (.enter al [])).isNone
      let mErr := match RQJ.enterJoint al c [] with | .ok _ => false | .error _ => true
      ((if mPass == passed then [] else [s!"JP gate: model passes={mPass} impl passed={passed}"]) ++
       (if mErr == panicked then [] else [s!"JP apply: model Changer error={mErr} impl panicked={panicked}"]),
       ["d:JP", if passed && panicked then "d:JP/passed-gate-and-panicked" else "d:JP/other"])
    | _, _, _, _ => (["bad JP line"], [])
  | _ => (["bad JP line"], [])

/-- the existential package: a schedule's driver state for its own cluster size -/
structure Sched where
  N : Nat
  st : DSt N
  stc : Option (DStC N) := none
  stj : Option (DStJ N) := none

def newSched (N : Nat) : Sched := ⟨N, { nodes := Array.ofFn (n := N) (fun i => (init1 N).nodes i) }, none, none⟩

partial def loop (h : IO.FS.Stream) (tot : Tot) (sc : Sched) : IO Tot := do
  let line ← h.getLine
  if line.isEmpty then return tot
  let line := (line.replace "\n" "").replace "\r" ""
  let fs := (line.splitOn " ").filter (· ≠ "")
  let tot := { tot with lines := tot.lines + 1 }
  match fs with
  | [] => loop h tot sc
  | "#" :: _ => loop h tot sc
  | "R" :: n :: _ =>
    match n.toNat? with
    | some N => loop h { tot with schedules := tot.schedules + 1, evInSched := 0 } (newSched N)
    | none => IO.println s!"MISMATCH {tot.lines} bad-header :: {line}"; loop h { tot with bad := tot.bad + 1 } sc
  | ["RC", vs] =>
    match idSet? vs with
    | some v =>
      let c0 : RQJ.Config := ⟨v, ∅, ∅, ∅, false⟩
      loop h (tot.bump "member-schedules") { sc with stc := some { c0 := c0, nodes := Array.ofFn (n := sc.N) (fun i => ⟨(init1 sc.N).nodes i, 0, 0⟩) } }
    | none => IO.println s!"MISMATCH {tot.lines} bad-RC :: {line}"; loop h { tot with bad := tot.bad + 1 } sc
  | ["RJ", vs] =>
    match idSet? vs with
    | some v =>
      let c0 : RQJ.Config := ⟨v, ∅, ∅, ∅, false⟩
      loop h (tot.bump "member-joint-schedules") { sc with stj := some { c0 := c0, nodes := Array.ofFn (n := sc.N) (fun i => ⟨(init1 sc.N).nodes i, 0, 0⟩) } }
    | none => IO.println s!"MISMATCH {tot.lines} bad-RJ :: {line}"; loop h { tot with bad := tot.bad + 1 } sc
  | "E" :: kind :: _ =>
    let (sc', errs, kinds, nout) : Sched × List String × List String × Nat :=
      match sc.stj, sc.stc with
      | some stj, _ => let (s', e, k, n) := eventLineJ stj fs; ({ sc with stj := some s' }, e, k, n)
      | none, some stc => let (s', e, k, n) := eventLineC stc fs; ({ sc with stc := some s' }, e, k, n)
      | none, none => let (s', e, k, n) := eventLine sc.st fs; ({ sc with st := s' }, e, k, n)
    let mut tot := { tot with events := tot.events + 1, evInSched := tot.evInSched + 1, calls := tot.calls + (kinds.filter fun k => !k.startsWith "br:" && k != "noop").length,
                              msgsChecked := tot.msgsChecked + nout }
    tot := tot.bump ("ev-" ++ kind)
    for k in kinds do tot := if k.startsWith "br:" then tot.bump k else tot.bump ("in-" ++ k)
    if !errs.isEmpty then
      IO.println s!"MISMATCH {tot.lines} {String.intercalate " ; " errs} :: {line}"
      tot := { tot with bad := tot.bad + 1, firstBadEvent := tot.firstBadEvent.orElse fun _ => some tot.evInSched }
    loop h tot sc'
  | ["Q", n, vals, res] =>
    let errs := stageAQ n vals res
    if !errs.isEmpty then IO.println s!"MISMATCH {tot.lines} {String.intercalate " ; " errs} :: {line}"
    loop h { tot with qa := tot.qa + 1, bad := tot.bad + (if errs.isEmpty then 0 else 1) } sc
  | ["V", n, votes, res] =>
    let errs := stageAV n votes res
    if !errs.isEmpty then IO.println s!"MISMATCH {tot.lines} {String.intercalate " ; " errs} :: {line}"
    loop h { tot with qa := tot.qa + 1, bad := tot.bad + (if errs.isEmpty then 0 else 1) } sc
  | ["JQ", a, b, acks, res] =>
    let errs := stageDJQ a b acks res
    if !errs.isEmpty then IO.println s!"MISMATCH {tot.lines} {String.intercalate " ; " errs} :: {line}"
    loop h { tot.bump "d:JQ" with qd := tot.qd + 1, bad := tot.bad + (if errs.isEmpty then 0 else 1) } sc
  | ["JV", a, b, votes, res] =>
    let errs := stageDJV a b votes res
    if !errs.isEmpty then IO.println s!"MISMATCH {tot.lines} {String.intercalate " ; " errs} :: {line}"
    loop h { (tot.bump "d:JV").bump ("d:JV/" ++ res) with qd := tot.qd + 1, bad := tot.bad + (if errs.isEmpty then 0 else 1) } sc
  | "CI" :: _ =>
    let (c, errs, ks) := stageDCI tot.conf fs
    if !errs.isEmpty then IO.println s!"MISMATCH {tot.lines} {String.intercalate " ; " errs} :: {line}"
    let tot := ks.foldl Tot.bump tot
    loop h { tot with qd := tot.qd + 1, conf := c, bad := tot.bad + (if errs.isEmpty then 0 else 1) } sc
  | "CC" :: _ =>
    let (c, errs, ks) := stageDCC tot.conf fs
    if !errs.isEmpty then IO.println s!"MISMATCH {tot.lines} {String.intercalate " ; " errs} :: {line}"
    let tot := ks.foldl Tot.bump tot
    loop h { tot with qd := tot.qd + 1, conf := c, bad := tot.bad + (if errs.isEmpty then 0 else 1) } sc
  | "CF" :: _ =>
    let (errs, ks) := stageDCF fs
    if !errs.isEmpty then IO.println s!"MISMATCH {tot.lines} {String.intercalate " ; " errs} :: {line}"
    let tot := ks.foldl Tot.bump tot
    loop h { tot with qd := tot.qd + 1, bad := tot.bad + (if errs.isEmpty then 0 else 1) } sc
  | "GT" :: _ =>
    let (errs, ks) := stageDGT fs
    if !errs.isEmpty then IO.println s!"MISMATCH {tot.lines} {String.intercalate " ; " errs} :: {line}"
    let tot := ks.foldl Tot.bump tot
    loop h { tot with qd := tot.qd + 1, bad := tot.bad + (if errs.isEmpty then 0 else 1) } sc
  | "HP" :: _ =>
    let (errs, ks) := stageDHP fs
    if !errs.isEmpty then IO.println s!"MISMATCH {tot.lines} {String.intercalate " ; " errs} :: {line}"
    let tot := ks.foldl Tot.bump tot
    loop h { tot with qd := tot.qd + 1, bad := tot.bad + (if errs.isEmpty then 0 else 1) } sc
  | "JF" :: _ =>
    let (errs, ks) := stageJF fs
    if !errs.isEmpty then IO.println s!"MISMATCH {tot.lines} {String.intercalate " ; " errs} :: {line}"
    let tot := ks.foldl Tot.bump tot
    loop h { tot with qd := tot.qd + 1, bad := tot.bad + (if errs.isEmpty then 0 else 1) } sc
  | "JG" :: _ =>
    let (errs, ks) := stageJG fs
    if !errs.isEmpty then IO.println s!"MISMATCH {tot.lines} {String.intercalate " ; " errs} :: {line}"
    let tot := ks.foldl Tot.bump tot
    loop h { tot with qd := tot.qd + 1, bad := tot.bad + (if errs.isEmpty then 0 else 1) } sc
  | "JA" :: _ =>
    let (errs, ks) := stageJA fs
    if !errs.isEmpty then IO.println s!"MISMATCH {tot.lines} {String.intercalate " ; " errs} :: {line}"
    let tot := ks.foldl Tot.bump tot
    loop h { tot with qd := tot.qd + 1, bad := tot.bad + (if errs.isEmpty then 0 else 1) } sc
  | "JH" :: _ =>
    let (errs, ks) := stageJH fs
    if !errs.isEmpty then IO.println s!"MISMATCH {tot.lines} {String.intercalate " ; " errs} :: {line}"
    let tot := ks.foldl Tot.bump tot
    loop h { tot with qd := tot.qd + 1, bad := tot.bad + (if errs.isEmpty then 0 else 1) } sc
  | "JP" :: _ =>
    let (errs, ks) := stageJP fs
    if !errs.isEmpty then IO.println s!"MISMATCH {tot.lines} {String.intercalate " ; " errs} :: {line}"
    let tot := ks.foldl Tot.bump tot
    loop h { tot with qd := tot.qd + 1, bad := tot.bad + (if errs.isEmpty then 0 else 1) } sc
  | "SAFETY-VIOLATION" :: _ =>
    IO.println s!"MISMATCH {tot.lines} impl-safety :: {line}"
    loop h { tot with bad := tot.bad + 1 } sc
  | _ =>
    IO.println s!"UNKNOWN {tot.lines} :: {line}"
    loop h { tot with bad := tot.bad + 1 } sc

end RaftDriver

def main : IO UInt32 := do
  let tot ← RaftDriver.loop (← IO.getStdin) {} (RaftDriver.newSched 1)
  let ks := tot.kinds.toList.toArray.qsort (fun a b => a.1 < b.1)
  let kstr := String.intercalate " " (ks.toList.map fun (k, v) => s!"{k}={v}")
  let fb := match tot.firstBadEvent with | some e => toString e | none => "-"
  IO.println s!"SUMMARY lines={tot.lines} mismatches={tot.bad} schedules={tot.schedules} events={tot.events} calls={tot.calls} messages={tot.msgsChecked} stageA={tot.qa} stageD={tot.qd} first-bad-event={fb} {kstr}"
  return (if tot.bad == 0 then 0 else 1)
