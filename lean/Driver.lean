import RedisGoModel.Driver.Util
import RedisGoModel.Driver.Glob
import RedisGoModel.Driver.Parser
import RedisGoModel.Driver.Exec
import RedisGoModel.Driver.Serve
import RedisGoModel.Driver.Apply
import RedisGoModel.Driver.Wal
import RedisGoModel.Driver.Codec
import RedisGoModel.Driver.Rendezvous
import RedisGoModel.Driver.Ready
import RedisGoModel.Driver.Multi
import RedisGoModel.Driver.PsTrace
import RedisGoModel.Driver.Config
/-! Correspondence driver: reads one observed operation per line on stdin, recomputes it with the model, prints
    `MISMATCH <lineno> <detail>` for every disagreement and a final `SUMMARY` line.  Each engine recognises its own line tags. -/
open Driver

structure St where
  n : Nat := 0
  bad : Nat := 0
  pos : Nat := 0   -- lines whose model outcome is "positive" (non-trivial by the engine's rule)
  unk : Nat := 0
  ex : ExecSt := {}
  sv : ServeSt := {}
  ap : ApplySt := {}
  wal : WalSt := {}
  rz : RzSt := {}
  mz : MzSt := {}

/-- try the engines in turn; the first that recognises the line judges it -/
def judge (st : St) (fs : List String) : St × Option (Except String Bool) :=
  let (ex', v) := execLine st.ex fs
  let st := { st with ex := ex' }
  if v.isSome then (st, v) else
  let (sv', v) := serveLine st.sv fs
  let st := { st with sv := sv' }
  if v.isSome then (st, v) else
  let (ap', v) := applyLine st.ap fs
  let st := { st with ap := ap' }
  if v.isSome then (st, v) else
  let (wal', v) := walLine st.wal fs
  let st := { st with wal := wal' }
  if v.isSome then (st, v) else
  let (rz', v) := rendezvousLine st.rz fs
  let st := { st with rz := rz' }
  if v.isSome then (st, v) else
  let (mz', v) := multiLine st.mz fs
  let st := { st with mz := mz' }
  if v.isSome then (st, v) else
  (st, (((((readyLine fs).orElse fun _ => configLine fs).orElse fun _ => codecLine fs).orElse fun _ => globLine fs).orElse fun _ => psTraceLine fs).orElse fun _ => parserLine fs)

partial def loop (h : IO.FS.Stream) (st : St) : IO St := do
  let line ← h.getLine
  if line.isEmpty then return st
  let line := (line.dropRightWhile (fun c => c == '\n' || c == '\r'))
  let fs := fields line
  if fs.isEmpty then loop h st else
  let n := st.n + 1
  let (st, verdict) := judge st fs
  match verdict with
  | some (.ok b) => loop h { st with n := n, pos := st.pos + (if b then 1 else 0) }
  | some (.error e) =>
    IO.println s!"MISMATCH {n} {e} :: {line}"
    loop h { st with n := n, bad := st.bad + 1 }
  | none =>
    IO.println s!"UNKNOWN {n} :: {line}"
    loop h { st with n := n, unk := st.unk + 1 }

def main : IO UInt32 := do
  let st ← loop (← IO.getStdin) {}
  IO.println s!"SUMMARY lines={st.n} mismatches={st.bad} positive={st.pos} unknown={st.unk} lenient={st.ex.lenient}"
  return (if st.bad == 0 && st.unk == 0 then 0 else 1)
