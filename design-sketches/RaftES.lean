import Mathlib.Data.Fintype.Card
import Mathlib.Data.Finset.Card

/-! Prototype: election safety for an abstract Raft (L0), votes as ghost state, messages as a
    monotone set. Only the vote sub-protocol is modelled here. -/
namespace RaftES
variable {N : Nat}

inductive Role | follower | candidate | leader deriving DecidableEq

structure NodeSt (N : Nat) where
  term : Nat
  vote : Option (Fin N)
  role : Role

inductive Msg (N : Nat)
| rv     (term : Nat) (src : Fin N)
| rvResp (term : Nat) (src dst : Fin N) (granted : Bool)
deriving DecidableEq

structure Sys (N : Nat) where
  nodes : Fin N → NodeSt N
  msgs  : Msg N → Prop                      -- monotone set of messages ever sent
  votes : Nat → Fin N → Fin N → Prop        -- ghost: (term, voter, candidate)

def upd (f : Fin N → NodeSt N) (i : Fin N) (s : NodeSt N) : Fin N → NodeSt N :=
  fun j => if j = i then s else f j

/-- the log up-to-date test is abstracted to an arbitrary predicate `ok` (it can only make fewer grants) -/
inductive Step : Sys N → Sys N → Prop
| timeout (s : Sys N) (i : Fin N) (h : (s.nodes i).role ≠ .leader) :
    Step s { nodes := upd s.nodes i ⟨(s.nodes i).term + 1, some i, .candidate⟩
             msgs := fun m => s.msgs m ∨ m = .rv ((s.nodes i).term + 1) i
             votes := fun t j c => s.votes t j c ∨ (t = (s.nodes i).term + 1 ∧ j = i ∧ c = i) }
| updateTerm (s : Sys N) (i : Fin N) (t : Nat) (ht : (s.nodes i).term < t) :   -- any higher term seen in any message
    Step s { s with nodes := upd s.nodes i ⟨t, none, .follower⟩ }
| grant (s : Sys N) (j c : Fin N) (t : Nat) (hm : s.msgs (.rv t c)) (ht : (s.nodes j).term = t)
    (hv : (s.nodes j).vote = none ∨ (s.nodes j).vote = some c) :
    Step s { nodes := upd s.nodes j { (s.nodes j) with vote := some c }
             msgs := fun m => s.msgs m ∨ m = .rvResp t j c true
             votes := fun t' j' c' => s.votes t' j' c' ∨ (t' = t ∧ j' = j ∧ c' = c) }
| reject (s : Sys N) (j c : Fin N) (t : Nat) :
    Step s { s with msgs := fun m => s.msgs m ∨ m = .rvResp t j c false }
| becomeLeader (s : Sys N) (i : Fin N) (Q : Finset (Fin N)) (hq : N < 2 * Q.card)
    (hc : (s.nodes i).role = .candidate)
    (hQ : ∀ j ∈ Q, j = i ∨ s.msgs (.rvResp (s.nodes i).term j i true)) :
    Step s { s with nodes := upd s.nodes i { (s.nodes i) with role := .leader } }
| restart (s : Sys N) (i : Fin N) :
    Step s { s with nodes := upd s.nodes i { (s.nodes i) with role := .follower } }

structure Inv (s : Sys N) : Prop where
  vote_durable : ∀ t j c, s.votes t j c → t ≤ (s.nodes j).term ∧ ((s.nodes j).term = t → (s.nodes j).vote = some c)
  resp_voted   : ∀ t j c, s.msgs (.rvResp t j c true) → s.votes t j c
  cand_self    : ∀ i, (s.nodes i).role ≠ .follower → s.votes (s.nodes i).term i i
  votes_fun    : ∀ t j c c', s.votes t j c → s.votes t j c' → c = c'
  leader_quorum : ∀ i, (s.nodes i).role = .leader →
      ∃ Q : Finset (Fin N), N < 2 * Q.card ∧ ∀ j ∈ Q, s.votes (s.nodes i).term j i


theorem quorums_meet (Q1 Q2 : Finset (Fin N)) (h1 : N < 2 * Q1.card) (h2 : N < 2 * Q2.card) :
    ∃ j, j ∈ Q1 ∧ j ∈ Q2 := by
  by_contra hne
  have hd : Disjoint Q1 Q2 := by
    rw [Finset.disjoint_left]; intro a ha hb; exact hne ⟨a, ha, hb⟩
  have := Finset.card_union_of_disjoint hd
  have hle : (Q1 ∪ Q2).card ≤ N := by
    simpa using Finset.card_le_univ (Q1 ∪ Q2)
  omega

theorem election_safety {s : Sys N} (h : Inv s) (i j : Fin N)
    (hi : (s.nodes i).role = .leader) (hj : (s.nodes j).role = .leader)
    (ht : (s.nodes i).term = (s.nodes j).term) : i = j := by
  obtain ⟨Q1, hq1, hv1⟩ := h.leader_quorum i hi
  obtain ⟨Q2, hq2, hv2⟩ := h.leader_quorum j hj
  obtain ⟨k, hk1, hk2⟩ := quorums_meet Q1 Q2 hq1 hq2
  have a := hv1 k hk1
  have b := hv2 k hk2
  rw [← ht] at b
  exact h.votes_fun _ _ _ _ a b

@[simp] theorem upd_same (f : Fin N → NodeSt N) (i : Fin N) (x : NodeSt N) : upd f i x i = x := by simp [upd]
theorem upd_other (f : Fin N → NodeSt N) {i j : Fin N} (x : NodeSt N) (h : j ≠ i) : upd f i x j = f j := by simp [upd, h]

theorem inv_step {s s' : Sys N} (h : Inv s) (st : Step s s') : Inv s' := by
  cases st with
  | timeout i hr =>
    refine ⟨?_, ?_, ?_, ?_, ?_⟩
    · intro t j c hv
      rcases hv with hv | ⟨rfl, rfl, rfl⟩
      · by_cases hji : j = i
        · subst hji; have := h.vote_durable t j c hv; simp; omega
        · simp only [upd_other _ _ hji]; exact h.vote_durable t j c hv
      · simp
    · intro t j c hm
      rcases hm with hm | hm
      · exact Or.inl (h.resp_voted t j c hm)
      · cases hm
    · intro k hk
      by_cases hki : k = i
      · subst hki; simp
      · simp only [upd_other _ _ hki] at hk ⊢; exact Or.inl (h.cand_self k hk)
    · intro t j c c' h1 h2
      rcases h1 with h1 | ⟨rfl, rfl, rfl⟩ <;> rcases h2 with h2 | ⟨h2a, h2b, h2c⟩
      · exact h.votes_fun t j c c' h1 h2
      · subst h2a h2b h2c; have := (h.vote_durable _ _ _ h1).1; omega
      · have := (h.vote_durable _ _ _ h2).1; omega
      · exact h2c.symm
    · intro k hk
      by_cases hki : k = i
      · subst hki; simp at hk
      · simp only [upd_other _ _ hki] at hk ⊢
        obtain ⟨Q, hq, hv⟩ := h.leader_quorum k hk
        exact ⟨Q, hq, fun j hj => Or.inl (hv j hj)⟩
  | updateTerm i t ht =>
    refine ⟨?_, ?_, ?_, ?_, ?_⟩
    · intro t' j c hv
      by_cases hji : j = i
      · subst hji; have := h.vote_durable t' j c hv; simp; omega
      · simp only [upd_other _ _ hji]; exact h.vote_durable t' j c hv
    · exact h.resp_voted
    · intro k hk
      by_cases hki : k = i
      · subst hki; simp at hk
      · simp only [upd_other _ _ hki] at hk ⊢; exact h.cand_self k hk
    · exact h.votes_fun
    · intro k hk
      by_cases hki : k = i
      · subst hki; simp at hk
      · simp only [upd_other _ _ hki] at hk ⊢; exact h.leader_quorum k hk
  | grant j c t hm ht hv =>
    refine ⟨?_, ?_, ?_, ?_, ?_⟩
    · intro t' j' c' hv'
      rcases hv' with hv' | ⟨rfl, rfl, rfl⟩
      · by_cases hji : j' = j
        · subst hji
          have hd := h.vote_durable t' j' c' hv'
          simp
          refine ⟨hd.1, fun he => ?_⟩
          have := hd.2 he
          rcases hv with hv | hv <;> simp_all
        · simp only [upd_other _ _ hji]; exact h.vote_durable t' j' c' hv'
      · simp [ht]
    · intro t' j' c' hm'
      rcases hm' with hm' | hm'
      · exact Or.inl (h.resp_voted _ _ _ hm')
      · cases hm'; exact Or.inr ⟨rfl, rfl, rfl⟩
    · intro k hk
      by_cases hki : k = j
      · subst hki; simp at hk ⊢; exact Or.inl (h.cand_self k hk)
      · simp only [upd_other _ _ hki] at hk ⊢; exact Or.inl (h.cand_self k hk)
    · intro t' j' c1 c2 h1 h2
      rcases h1 with h1 | ⟨rfl, rfl, rfl⟩ <;> rcases h2 with h2 | ⟨h2a, h2b, h2c⟩
      · exact h.votes_fun _ _ _ _ h1 h2
      · subst h2a h2b h2c
        have := (h.vote_durable _ _ _ h1).2 ht
        rcases hv with hv | hv <;> simp_all
      · have := (h.vote_durable _ _ _ h2).2 ht
        rcases hv with hv | hv <;> simp_all
      · exact h2c.symm
    · intro k hk
      have hk' : (s.nodes k).role = .leader := by
        by_cases hki : k = j
        · subst hki; simpa using hk
        · simpa only [upd_other _ _ hki] using hk
      have hterm : (upd s.nodes j { (s.nodes j) with vote := some c } k).term = (s.nodes k).term := by
        by_cases hki : k = j
        · subst hki; simp
        · simp only [upd_other _ _ hki]
      obtain ⟨Q, hq, hvq⟩ := h.leader_quorum k hk'
      exact ⟨Q, hq, fun x hx => by rw [hterm]; exact Or.inl (hvq x hx)⟩
  | reject j c t =>
    refine ⟨h.vote_durable, ?_, h.cand_self, h.votes_fun, h.leader_quorum⟩
    intro t' j' c' hm'
    rcases hm' with hm' | hm'
    · exact h.resp_voted _ _ _ hm'
    · cases hm'
  | becomeLeader i Q hq hc hQ =>
    refine ⟨?_, h.resp_voted, ?_, h.votes_fun, ?_⟩
    · intro t j c hv
      by_cases hji : j = i
      · subst hji; simpa using h.vote_durable t j c hv
      · simp only [upd_other _ _ hji]; exact h.vote_durable t j c hv
    · intro k hk
      by_cases hki : k = i
      · subst hki; simp; exact h.cand_self k (by rw [hc]; simp)
      · simp only [upd_other _ _ hki] at hk ⊢; exact h.cand_self k hk
    · intro k hk
      by_cases hki : k = i
      · subst hki
        refine ⟨Q, hq, fun j hj => ?_⟩
        simp
        rcases hQ j hj with rfl | hm
        · exact h.cand_self j (by rw [hc]; simp)
        · exact h.resp_voted _ _ _ hm
      · simp only [upd_other _ _ hki] at hk ⊢; exact h.leader_quorum k hk
  | restart i =>
    refine ⟨?_, h.resp_voted, ?_, h.votes_fun, ?_⟩
    · intro t j c hv
      by_cases hji : j = i
      · subst hji; simpa using h.vote_durable t j c hv
      · simp only [upd_other _ _ hji]; exact h.vote_durable t j c hv
    · intro k hk
      by_cases hki : k = i
      · subst hki; simp at hk
      · simp only [upd_other _ _ hki] at hk ⊢; exact h.cand_self k hk
    · intro k hk
      by_cases hki : k = i
      · subst hki; simp at hk
      · simp only [upd_other _ _ hki] at hk ⊢; exact h.leader_quorum k hk

end RaftES

#print axioms RaftES.inv_step
#print axioms RaftES.election_safety
