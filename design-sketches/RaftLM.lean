import Mathlib.Data.Fintype.Card
import Mathlib.Data.Finset.Card

/-! Prototype: abstract Raft (L0) with logs; ghost `llog t` = log of term-t's leader.
    Goal here: the *prefix property* (I5) ⇒ log matching, over all schedules. -/
namespace RaftLM

structure Entry where
  term : Nat
  data : Nat
deriving DecidableEq

abbrev Log := List Entry

/-- term of the entry at 1-based index k (0 for k = 0 or out of range) -/
def termAt (l : Log) (k : Nat) : Nat :=
  match k with
  | 0 => 0
  | k+1 => match l[k]? with | some e => e.term | none => 0

def lastTerm (l : Log) : Nat := termAt l l.length

inductive Role | follower | candidate | leader deriving DecidableEq

structure NodeSt (N : Nat) where
  term : Nat
  vote : Option (Fin N)
  role : Role
  log  : Log
  commit : Nat

inductive Msg (N : Nat)
| rv     (term : Nat) (src : Fin N) (lastIdx lastTerm : Nat)
| rvResp (term : Nat) (src dst : Fin N) (granted : Bool)
| ae     (term : Nat) (src : Fin N) (prev prevTerm : Nat) (ents : Log) (commit : Nat)
| aeResp (term : Nat) (src dst : Fin N) (ok : Bool) (index : Nat)

structure Sys (N : Nat) where
  nodes : Fin N → NodeSt N
  msgs  : Msg N → Prop
  votes : Nat → Fin N → Fin N → Prop     -- ghost
  llog  : Nat → Log                      -- ghost: log of the leader of each term ([] if none yet)
  isLdr : Nat → Fin N → Prop             -- ghost: i was elected leader of term t

variable {N : Nat}

def upd (f : Fin N → NodeSt N) (i : Fin N) (s : NodeSt N) : Fin N → NodeSt N :=
  fun j => if j = i then s else f j

def upToDate (lt li : Nat) (l : Log) : Prop := lt > lastTerm l ∨ (lt = lastTerm l ∧ li ≥ l.length)

/-- follower-side append, mirroring raftLog.maybeAppend: keep `log[1..prev]`, then walk `ents`;
    at the first index where terms differ (or log ends) replace the tail by the rest of `ents`. -/
def appendFrom (old : Log) (ents : Log) : Log :=
  match old, ents with
  | _, [] => old
  | [], es => es
  | o :: os, e :: es => if o.term = e.term then o :: appendFrom os es else e :: es

def follAppend (l : Log) (prev : Nat) (ents : Log) : Log :=
  l.take prev ++ appendFrom (l.drop prev) ents

inductive Step : Sys N → Sys N → Prop
| timeout (s : Sys N) (i : Fin N) (h : (s.nodes i).role ≠ .leader) :
    Step s { s with
      nodes := upd s.nodes i { (s.nodes i) with term := (s.nodes i).term + 1, vote := some i, role := .candidate }
      msgs := fun m => s.msgs m ∨ m = .rv ((s.nodes i).term + 1) i (s.nodes i).log.length (lastTerm (s.nodes i).log)
      votes := fun t j c => s.votes t j c ∨ (t = (s.nodes i).term + 1 ∧ j = i ∧ c = i) }
| updateTerm (s : Sys N) (i : Fin N) (t : Nat) (ht : (s.nodes i).term < t) :
    Step s { s with nodes := upd s.nodes i { (s.nodes i) with term := t, vote := none, role := .follower } }
| grant (s : Sys N) (j c : Fin N) (t li lt : Nat) (hm : s.msgs (.rv t c li lt)) (ht : (s.nodes j).term = t)
    (hv : (s.nodes j).vote = none ∨ (s.nodes j).vote = some c) (hu : upToDate lt li (s.nodes j).log) :
    Step s { s with
      nodes := upd s.nodes j { (s.nodes j) with vote := some c }
      msgs := fun m => s.msgs m ∨ m = .rvResp t j c true
      votes := fun t' j' c' => s.votes t' j' c' ∨ (t' = t ∧ j' = j ∧ c' = c) }
| becomeLeader (s : Sys N) (i : Fin N) (Q : Finset (Fin N)) (hq : N < 2 * Q.card)
    (hc : (s.nodes i).role = .candidate)
    (hQ : ∀ j ∈ Q, j = i ∨ s.msgs (.rvResp (s.nodes i).term j i true)) :
    Step s { s with
      nodes := upd s.nodes i { (s.nodes i) with role := .leader, log := (s.nodes i).log ++ [⟨(s.nodes i).term, 0⟩] }
      llog := fun t => if t = (s.nodes i).term then (s.nodes i).log ++ [⟨(s.nodes i).term, 0⟩] else s.llog t
      isLdr := fun t j => s.isLdr t j ∨ (t = (s.nodes i).term ∧ j = i) }
| clientReq (s : Sys N) (i : Fin N) (v : Nat) (hl : (s.nodes i).role = .leader) :
    Step s { s with
      nodes := upd s.nodes i { (s.nodes i) with log := (s.nodes i).log ++ [⟨(s.nodes i).term, v⟩] }
      llog := fun t => if t = (s.nodes i).term then (s.nodes i).log ++ [⟨(s.nodes i).term, v⟩] else s.llog t }
| sendAE (s : Sys N) (i : Fin N) (prev cnt : Nat) (hl : (s.nodes i).role = .leader) (hp : prev ≤ (s.nodes i).log.length) :
    Step s { s with
      msgs := fun m => s.msgs m ∨
        m = .ae (s.nodes i).term i prev (termAt (s.nodes i).log prev) (((s.nodes i).log.drop prev).take cnt) (s.nodes i).commit }
| handleAE (s : Sys N) (j src : Fin N) (t prev pt : Nat) (ents : Log) (cm : Nat)
    (hm : s.msgs (.ae t src prev pt ents cm)) (ht : (s.nodes j).term = t)
    (hnl : (s.nodes j).role ≠ .leader)
    (hmatch : prev ≤ (s.nodes j).log.length ∧ termAt (s.nodes j).log prev = pt) :
    Step s { s with
      nodes := upd s.nodes j { (s.nodes j) with role := .follower, log := follAppend (s.nodes j).log prev ents }
      msgs := fun m => s.msgs m ∨ m = .aeResp t j src true (prev + ents.length) }
| restart (s : Sys N) (i : Fin N) :
    Step s { s with nodes := upd s.nodes i { (s.nodes i) with role := .follower } }

/-- prefix property of a log w.r.t. the leader logs -/
def PrefixOK (llog : Nat → Log) (l : Log) : Prop :=
  ∀ k, 1 ≤ k → k ≤ l.length → l.take k = (llog (termAt l k)).take k

/-! ### list lemmas -/

theorem termAt_take (l : Log) {k m : Nat} (h : k ≤ m) : termAt (l.take m) k = termAt l k := by
  cases k with
  | zero => rfl
  | succ k =>
    simp only [termAt]
    have : k < m := h
    rw [List.getElem?_take_of_lt this]

theorem termAt_append_le (l : Log) (e : Entry) {k : Nat} (h : k ≤ l.length) : termAt (l ++ [e]) k = termAt l k := by
  cases k with
  | zero => rfl
  | succ k =>
    simp only [termAt]
    have : k < l.length := h
    rw [List.getElem?_append_left this]

theorem termAt_append_last (l : Log) (e : Entry) : termAt (l ++ [e]) (l.length + 1) = e.term := by
  simp [termAt]

theorem PrefixOK.take {llog : Nat → Log} {l : Log} (h : PrefixOK llog l) (m : Nat) : PrefixOK llog (l.take m) := by
  intro k h1 h2
  have hk : k ≤ m := by
    have := List.length_take_le m l; omega
  have hkl : k ≤ l.length := by
    have := List.length_take_le' m l; omega
  rw [termAt_take l hk, List.take_take, Nat.min_eq_left hk]
  exact h k h1 hkl

/-- if two PrefixOK logs carry the same term at index k they agree up to k -/
theorem prefix_agree {llog : Nat → Log} {l l' : Log} (h : PrefixOK llog l) (h' : PrefixOK llog l')
    {k : Nat} (h1 : 1 ≤ k) (hl : k ≤ l.length) (hl' : k ≤ l'.length) (ht : termAt l k = termAt l' k) :
    l.take k = l'.take k := by
  rw [h k h1 hl, h' k h1 hl', ht]

theorem quorums_meet (Q1 Q2 : Finset (Fin N)) (h1 : N < 2 * Q1.card) (h2 : N < 2 * Q2.card) :
    ∃ j, j ∈ Q1 ∧ j ∈ Q2 := by
  by_contra hne
  have hd : Disjoint Q1 Q2 := by
    rw [Finset.disjoint_left]; intro a ha hb; exact hne ⟨a, ha, hb⟩
  have := Finset.card_union_of_disjoint hd
  have hle : (Q1 ∪ Q2).card ≤ N := by
    simpa using Finset.card_le_univ (Q1 ∪ Q2)
  omega

structure Inv (s : Sys N) : Prop where
  vote_durable : ∀ t j c, s.votes t j c → t ≤ (s.nodes j).term ∧ ((s.nodes j).term = t → (s.nodes j).vote = some c)
  resp_voted   : ∀ t j c, s.msgs (.rvResp t j c true) → s.votes t j c
  cand_self    : ∀ i, (s.nodes i).role ≠ .follower → s.votes (s.nodes i).term i i
  votes_fun    : ∀ t j c c', s.votes t j c → s.votes t j c' → c = c'
  ldr_quorum   : ∀ t i, s.isLdr t i → ∃ Q : Finset (Fin N), N < 2 * Q.card ∧ ∀ j ∈ Q, s.votes t j i
  ldr_role     : ∀ i, (s.nodes i).role = .leader → s.isLdr (s.nodes i).term i
  ldr_term     : ∀ t i, s.isLdr t i → t ≤ (s.nodes i).term ∧ ((s.nodes i).term = t → (s.nodes i).role ≠ .candidate)
  llog_none    : ∀ t, (∀ i, ¬ s.isLdr t i) → s.llog t = []
  ldr_log      : ∀ i, (s.nodes i).role = .leader → (s.nodes i).log = s.llog (s.nodes i).term
  p_nodes      : ∀ i, PrefixOK s.llog (s.nodes i).log
  p_llog       : ∀ t, PrefixOK s.llog (s.llog t)
  ae_ok        : ∀ t src prev pt ents cm, s.msgs (.ae t src prev pt ents cm) →
                   s.isLdr t src ∧ prev ≤ (s.llog t).length ∧ pt = termAt (s.llog t) prev ∧
                   ents = ((s.llog t).drop prev).take ents.length

theorem ldr_unique {s : Sys N} (h : Inv s) {t i j} (hi : s.isLdr t i) (hj : s.isLdr t j) : i = j := by
  obtain ⟨Q1, hq1, hv1⟩ := h.ldr_quorum t i hi
  obtain ⟨Q2, hq2, hv2⟩ := h.ldr_quorum t j hj
  obtain ⟨k, hk1, hk2⟩ := quorums_meet Q1 Q2 hq1 hq2
  exact h.votes_fun _ _ _ _ (hv1 k hk1) (hv2 k hk2)

/-- election safety, in the statement's words -/
theorem election_safety {s : Sys N} (h : Inv s) (i j : Fin N)
    (hi : (s.nodes i).role = .leader) (hj : (s.nodes j).role = .leader)
    (ht : (s.nodes i).term = (s.nodes j).term) : i = j := by
  have a := h.ldr_role i hi
  have b := h.ldr_role j hj
  rw [← ht] at b
  exact ldr_unique h a b

/-- log matching, in the statement's words: same term at the same index ⇒ identical prefixes -/
theorem log_matching {s : Sys N} (h : Inv s) (i j : Fin N) (k : Nat) (h1 : 1 ≤ k)
    (hi : k ≤ (s.nodes i).log.length) (hj : k ≤ (s.nodes j).log.length)
    (ht : termAt (s.nodes i).log k = termAt (s.nodes j).log k) :
    (s.nodes i).log.take k = (s.nodes j).log.take k :=
  prefix_agree (h.p_nodes i) (h.p_nodes j) h1 hi hj ht

/-! ### how PrefixOK survives changes of the ghost leader logs -/

theorem PrefixOK.of_llog_fresh {llog llog' : Nat → Log} {t0 : Nat} (hnone : llog t0 = [])
    (hsame : ∀ t, t ≠ t0 → llog' t = llog t) {l : Log} (h : PrefixOK llog l) : PrefixOK llog' l := by
  intro k h1 h2
  by_cases ht : termAt l k = t0
  · exfalso
    have := h k h1 h2
    rw [ht, hnone] at this
    have hl : (l.take k).length = k := by simp [List.length_take, h2]
    rw [this] at hl
    simp at hl; omega
  · rw [hsame _ ht]; exact h k h1 h2

theorem PrefixOK.of_llog_append {llog llog' : Nat → Log} {t0 : Nat} {e : Entry} (happ : llog' t0 = llog t0 ++ [e])
    (hsame : ∀ t, t ≠ t0 → llog' t = llog t) {l : Log} (h : PrefixOK llog l) : PrefixOK llog' l := by
  intro k h1 h2
  by_cases ht : termAt l k = t0
  · have := h k h1 h2
    rw [ht] at this ⊢
    rw [happ, this]
    have hl : (l.take k).length = k := by simp [List.length_take, h2]
    rw [this, List.length_take] at hl
    have : k ≤ (llog t0).length := by omega
    rw [List.take_append_of_le_length this]
  · rw [hsame _ ht]; exact h k h1 h2

theorem appendFrom_cases (old es : Log)
    (hag : ∀ (idx : Nat) (o e : Entry), old[idx]? = some o → es[idx]? = some e → o.term = e.term → o = e) :
    appendFrom old es = old ∨ appendFrom old es = es := by
  induction old generalizing es with
  | nil => cases es <;> simp [appendFrom]
  | cons o os ih =>
    cases es with
    | nil => simp [appendFrom]
    | cons e es' =>
      simp only [appendFrom]
      by_cases hte : o.term = e.term
      · have hoe : o = e := hag 0 o e (by simp) (by simp) hte
        simp only [hte, if_true]
        have := ih es' (fun idx o' e' h1 h2 h3 => hag (idx+1) o' e' (by simpa using h1) (by simpa using h2) h3)
        rcases this with h | h
        · left; rw [h, hoe]
        · right; rw [h, hoe]
      · simp [hte]

theorem getElem?_of_take_eq {l L : Log} {k idx : Nat} (h : l.take k = L.take k) (hi : idx < k) : l[idx]? = L[idx]? := by
  have h1 : (l.take k)[idx]? = l[idx]? := List.getElem?_take_of_lt hi
  have h2 : (L.take k)[idx]? = L[idx]? := List.getElem?_take_of_lt hi
  rw [← h1, ← h2, h]

theorem termAt_of_getElem? {l : Log} {idx : Nat} {e : Entry} (h : l[idx]? = some e) : termAt l (idx+1) = e.term := by
  simp [termAt, h]

theorem follAppend_cases {llog : Nat → Log} {l L : Log} (hl : PrefixOK llog l) (hL : PrefixOK llog L)
    {prev n : Nat} (hp : prev ≤ l.length) (hpL : prev ≤ L.length) (hpt : termAt l prev = termAt L prev) :
    follAppend l prev ((L.drop prev).take n) = l ∨ follAppend l prev ((L.drop prev).take n) = L.take (prev + n) := by
  have hpre : l.take prev = L.take prev := by
    cases prev with
    | zero => simp
    | succ p => exact prefix_agree hl hL (by omega) hp hpL hpt
  have hag : ∀ (idx : Nat) (o e : Entry), (l.drop prev)[idx]? = some o → ((L.drop prev).take n)[idx]? = some e →
      o.term = e.term → o = e := by
    intro idx o e ho he hte
    have ho' : l[prev + idx]? = some o := by simpa [List.getElem?_drop] using ho
    have he' : L[prev + idx]? = some e := by
      have hlt : idx < n := by
        by_contra hge
        have : ((L.drop prev).take n)[idx]? = none := by
          apply List.getElem?_eq_none; simp; omega
        rw [this] at he; cases he
      rw [List.getElem?_take_of_lt hlt] at he
      simpa [List.getElem?_drop] using he
    have hk1 : prev + idx + 1 ≤ l.length := by
      have := (List.getElem?_eq_some_iff.1 ho').1; omega
    have hk2 : prev + idx + 1 ≤ L.length := by
      have := (List.getElem?_eq_some_iff.1 he').1; omega
    have hterm : termAt l (prev + idx + 1) = termAt L (prev + idx + 1) := by
      rw [termAt_of_getElem? ho', termAt_of_getElem? he', hte]
    have := prefix_agree hl hL (by omega) hk1 hk2 hterm
    have := getElem?_of_take_eq this (show prev + idx < prev + idx + 1 by omega)
    rw [ho', he'] at this
    exact Option.some.inj this
  unfold follAppend
  rcases appendFrom_cases _ _ hag with h | h
  · left; rw [h, List.take_append_drop]
  · right; rw [h, hpre, ← List.take_add]

@[simp] theorem upd_same (f : Fin N → NodeSt N) (i : Fin N) (x : NodeSt N) : upd f i x i = x := by simp [upd]
theorem upd_other (f : Fin N → NodeSt N) {i j : Fin N} (x : NodeSt N) (h : j ≠ i) : upd f i x j = f j := by simp [upd, h]

/-- steps that touch only term/vote/role of one node and add vote-protocol messages -/
theorem inv_timeout {s : Sys N} (h : Inv s) (i : Fin N) (hr : (s.nodes i).role ≠ .leader) :
    Inv { s with
      nodes := upd s.nodes i { (s.nodes i) with term := (s.nodes i).term + 1, vote := some i, role := .candidate }
      msgs := fun m => s.msgs m ∨ m = .rv ((s.nodes i).term + 1) i (s.nodes i).log.length (lastTerm (s.nodes i).log)
      votes := fun t j c => s.votes t j c ∨ (t = (s.nodes i).term + 1 ∧ j = i ∧ c = i) } := by
  refine ⟨?_, ?_, ?_, ?_, ?_, ?_, ?_, ?_, ?_, ?_, ?_, ?_⟩
  · intro t j c hv
    rcases hv with hv | ⟨rfl, rfl, rfl⟩
    · by_cases hji : j = i
      · subst hji; have := h.vote_durable t j c hv; simp; omega
      · simp only [upd_other _ _ hji]; exact h.vote_durable t j c hv
    · simp
  · intro t j c hm
    rcases hm with hm | hm
    · exact Or.inl (h.resp_voted t j c hm)
    · cases hm
  · intro k hk
    by_cases hki : k = i
    · subst hki; simp
    · simp only [upd_other _ _ hki] at hk ⊢; exact Or.inl (h.cand_self k hk)
  · intro t j c c' h1 h2
    rcases h1 with h1 | ⟨rfl, rfl, rfl⟩ <;> rcases h2 with h2 | ⟨h2a, h2b, h2c⟩
    · exact h.votes_fun t j c c' h1 h2
    · subst h2a h2b h2c; have := (h.vote_durable _ _ _ h1).1; omega
    · have := (h.vote_durable _ _ _ h2).1; omega
    · exact h2c.symm
  · intro t k hk
    obtain ⟨Q, hq, hv⟩ := h.ldr_quorum t k hk
    exact ⟨Q, hq, fun j hj => Or.inl (hv j hj)⟩
  · intro k hk
    by_cases hki : k = i
    · subst hki; simp at hk
    · simp only [upd_other _ _ hki] at hk ⊢; exact h.ldr_role k hk
  · intro t k hk
    by_cases hki : k = i
    · subst hki
      have := h.ldr_term t k hk
      simp; omega
    · simp only [upd_other _ _ hki]; exact h.ldr_term t k hk
  · exact h.llog_none
  · intro k hk
    by_cases hki : k = i
    · subst hki; simp at hk
    · simp only [upd_other _ _ hki] at hk ⊢; exact h.ldr_log k hk
  · intro k
    by_cases hki : k = i
    · subst hki; simpa using h.p_nodes k
    · simp only [upd_other _ _ hki]; exact h.p_nodes k
  · exact h.p_llog
  · intro t src prev pt ents cm hm
    rcases hm with hm | hm
    · exact h.ae_ok t src prev pt ents cm hm
    · cases hm

theorem inv_updateTerm {s : Sys N} (h : Inv s) (i : Fin N) (t : Nat) (ht : (s.nodes i).term < t) :
    Inv { s with nodes := upd s.nodes i { (s.nodes i) with term := t, vote := none, role := .follower } } := by
  refine ⟨?_, h.resp_voted, ?_, h.votes_fun, h.ldr_quorum, ?_, ?_, h.llog_none, ?_, ?_, h.p_llog, h.ae_ok⟩
  · intro t' j c hv
    by_cases hji : j = i
    · subst hji; have := h.vote_durable t' j c hv; simp; omega
    · simp only [upd_other _ _ hji]; exact h.vote_durable t' j c hv
  · intro k hk
    by_cases hki : k = i
    · subst hki; simp at hk
    · simp only [upd_other _ _ hki] at hk ⊢; exact h.cand_self k hk
  · intro k hk
    by_cases hki : k = i
    · subst hki; simp at hk
    · simp only [upd_other _ _ hki] at hk ⊢; exact h.ldr_role k hk
  · intro t' k hk
    by_cases hki : k = i
    · subst hki; have := h.ldr_term t' k hk; simp; omega
    · simp only [upd_other _ _ hki]; exact h.ldr_term t' k hk
  · intro k hk
    by_cases hki : k = i
    · subst hki; simp at hk
    · simp only [upd_other _ _ hki] at hk ⊢; exact h.ldr_log k hk
  · intro k
    by_cases hki : k = i
    · subst hki; simpa using h.p_nodes k
    · simp only [upd_other _ _ hki]; exact h.p_nodes k

theorem inv_restart {s : Sys N} (h : Inv s) (i : Fin N) :
    Inv { s with nodes := upd s.nodes i { (s.nodes i) with role := .follower } } := by
  refine ⟨?_, h.resp_voted, ?_, h.votes_fun, h.ldr_quorum, ?_, ?_, h.llog_none, ?_, ?_, h.p_llog, h.ae_ok⟩
  · intro t' j c hv
    by_cases hji : j = i
    · subst hji; simpa using h.vote_durable t' j c hv
    · simp only [upd_other _ _ hji]; exact h.vote_durable t' j c hv
  · intro k hk
    by_cases hki : k = i
    · subst hki; simp at hk
    · simp only [upd_other _ _ hki] at hk ⊢; exact h.cand_self k hk
  · intro k hk
    by_cases hki : k = i
    · subst hki; simp at hk
    · simp only [upd_other _ _ hki] at hk ⊢; exact h.ldr_role k hk
  · intro t' k hk
    by_cases hki : k = i
    · subst hki; have := h.ldr_term t' k hk; simp; exact this.1
    · simp only [upd_other _ _ hki]; exact h.ldr_term t' k hk
  · intro k hk
    by_cases hki : k = i
    · subst hki; simp at hk
    · simp only [upd_other _ _ hki] at hk ⊢; exact h.ldr_log k hk
  · intro k
    by_cases hki : k = i
    · subst hki; simpa using h.p_nodes k
    · simp only [upd_other _ _ hki]; exact h.p_nodes k

theorem inv_grant {s : Sys N} (h : Inv s) (j c : Fin N) (t li lt : Nat) (ht : (s.nodes j).term = t)
    (hv : (s.nodes j).vote = none ∨ (s.nodes j).vote = some c) :
    Inv { s with
      nodes := upd s.nodes j { (s.nodes j) with vote := some c }
      msgs := fun m => s.msgs m ∨ m = .rvResp t j c true
      votes := fun t' j' c' => s.votes t' j' c' ∨ (t' = t ∧ j' = j ∧ c' = c) } := by
  refine ⟨?_, ?_, ?_, ?_, ?_, ?_, ?_, h.llog_none, ?_, ?_, h.p_llog, ?_⟩
  · intro t' j' c' hv'
    rcases hv' with hv' | ⟨rfl, rfl, rfl⟩
    · by_cases hji : j' = j
      · subst hji
        have hd := h.vote_durable t' j' c' hv'
        simp
        refine ⟨hd.1, fun he => ?_⟩
        have := hd.2 he
        rcases hv with hv | hv <;> simp_all
      · simp only [upd_other _ _ hji]; exact h.vote_durable t' j' c' hv'
    · simp [ht]
  · intro t' j' c' hm'
    rcases hm' with hm' | hm'
    · exact Or.inl (h.resp_voted _ _ _ hm')
    · cases hm'; exact Or.inr ⟨rfl, rfl, rfl⟩
  · intro k hk
    by_cases hki : k = j
    · subst hki; simp at hk ⊢; exact Or.inl (h.cand_self k hk)
    · simp only [upd_other _ _ hki] at hk ⊢; exact Or.inl (h.cand_self k hk)
  · intro t' j' c1 c2 h1 h2
    rcases h1 with h1 | ⟨rfl, rfl, rfl⟩ <;> rcases h2 with h2 | ⟨h2a, h2b, h2c⟩
    · exact h.votes_fun _ _ _ _ h1 h2
    · subst h2a h2b h2c
      have := (h.vote_durable _ _ _ h1).2 ht
      rcases hv with hv | hv <;> simp_all
    · have := (h.vote_durable _ _ _ h2).2 ht
      rcases hv with hv | hv <;> simp_all
    · exact h2c.symm
  · intro t' k hk
    obtain ⟨Q, hq, hvq⟩ := h.ldr_quorum t' k hk
    exact ⟨Q, hq, fun x hx => Or.inl (hvq x hx)⟩
  · intro k hk
    by_cases hki : k = j
    · subst hki; simp at hk ⊢; exact h.ldr_role k hk
    · simp only [upd_other _ _ hki] at hk ⊢; exact h.ldr_role k hk
  · intro t' k hk
    by_cases hki : k = j
    · subst hki; simpa using h.ldr_term t' k hk
    · simp only [upd_other _ _ hki]; exact h.ldr_term t' k hk
  · intro k hk
    by_cases hki : k = j
    · subst hki; simp at hk ⊢; exact h.ldr_log k hk
    · simp only [upd_other _ _ hki] at hk ⊢; exact h.ldr_log k hk
  · intro k
    by_cases hki : k = j
    · subst hki; simpa using h.p_nodes k
    · simp only [upd_other _ _ hki]; exact h.p_nodes k
  · intro t' src prev pt ents cm hm
    rcases hm with hm | hm
    · exact h.ae_ok t' src prev pt ents cm hm
    · cases hm

theorem take_take_length (l : Log) (n : Nat) : l.take (l.take n).length = l.take n := by
  rw [List.length_take]
  by_cases h : n ≤ l.length
  · rw [Nat.min_eq_left h]
  · have h' : l.length ≤ n := by omega
    rw [Nat.min_eq_right h', List.take_length, List.take_of_length_le h']

theorem PrefixOK.snoc {llog : Nat → Log} {l : Log} {e : Entry} (h : PrefixOK llog l)
    (hself : llog e.term = l ++ [e]) : PrefixOK llog (l ++ [e]) := by
  intro k h1 h2
  by_cases hk : k ≤ l.length
  · rw [termAt_append_le l e hk, List.take_append_of_le_length hk]
    exact h k h1 hk
  · have : k = l.length + 1 := by simp at h2; omega
    subst this
    rw [termAt_append_last, hself]

theorem inv_sendAE {s : Sys N} (h : Inv s) (i : Fin N) (prev cnt : Nat) (hl : (s.nodes i).role = .leader)
    (hp : prev ≤ (s.nodes i).log.length) :
    Inv { s with
      msgs := fun m => s.msgs m ∨
        m = .ae (s.nodes i).term i prev (termAt (s.nodes i).log prev) (((s.nodes i).log.drop prev).take cnt) (s.nodes i).commit } := by
  refine ⟨h.vote_durable, ?_, h.cand_self, h.votes_fun, h.ldr_quorum, h.ldr_role, h.ldr_term, h.llog_none,
    h.ldr_log, h.p_nodes, h.p_llog, ?_⟩
  · intro t j c hm
    rcases hm with hm | hm
    · exact h.resp_voted t j c hm
    · cases hm
  · intro t src prev' pt ents cm hm
    rcases hm with hm | hm
    · exact h.ae_ok t src prev' pt ents cm hm
    · cases hm
      have hlog := h.ldr_log i hl
      refine ⟨h.ldr_role i hl, by rw [← hlog]; exact hp, by rw [← hlog], ?_⟩
      rw [← hlog]
      exact (take_take_length _ _).symm

theorem inv_clientReq {s : Sys N} (h : Inv s) (i : Fin N) (v : Nat) (hl : (s.nodes i).role = .leader) :
    Inv { s with
      nodes := upd s.nodes i { (s.nodes i) with log := (s.nodes i).log ++ [⟨(s.nodes i).term, v⟩] }
      llog := fun t => if t = (s.nodes i).term then (s.nodes i).log ++ [⟨(s.nodes i).term, v⟩] else s.llog t } := by
  set t0 := (s.nodes i).term with ht0
  set e : Entry := ⟨t0, v⟩ with he
  have hlog : (s.nodes i).log = s.llog t0 := h.ldr_log i hl
  let llog' : Nat → Log := fun t => if t = t0 then (s.nodes i).log ++ [e] else s.llog t
  have happ : llog' t0 = s.llog t0 ++ [e] := by simp [llog', hlog]
  have hsame : ∀ t, t ≠ t0 → llog' t = s.llog t := by intro t ht; simp [llog', ht]
  have hself : llog' e.term = (s.nodes i).log ++ [e] := by simp [llog', he]
  have pi : PrefixOK llog' ((s.nodes i).log ++ [e]) :=
    PrefixOK.snoc (PrefixOK.of_llog_append happ hsame (h.p_nodes i)) hself
  refine ⟨?_, h.resp_voted, ?_, h.votes_fun, h.ldr_quorum, ?_, ?_, ?_, ?_, ?_, ?_, ?_⟩
  · intro t j c hv
    by_cases hji : j = i
    · subst hji; simpa using h.vote_durable t j c hv
    · simp only [upd_other _ _ hji]; exact h.vote_durable t j c hv
  · intro k hk
    by_cases hki : k = i
    · subst hki; simp at hk ⊢; exact h.cand_self k hk
    · simp only [upd_other _ _ hki] at hk ⊢; exact h.cand_self k hk
  · intro k hk
    by_cases hki : k = i
    · subst hki; simp at hk ⊢; exact h.ldr_role k hk
    · simp only [upd_other _ _ hki] at hk ⊢; exact h.ldr_role k hk
  · intro t k hk
    by_cases hki : k = i
    · subst hki; simpa using h.ldr_term t k hk
    · simp only [upd_other _ _ hki]; exact h.ldr_term t k hk
  · intro t hno
    have : t ≠ t0 := by
      intro e'; subst e'; exact hno i (h.ldr_role i hl)
    show llog' t = []
    rw [hsame t this]; exact h.llog_none t hno
  · intro k hk
    show (upd s.nodes i _ k).log = llog' (upd s.nodes i _ k).term
    by_cases hki : k = i
    · subst hki; simp [llog', ← ht0]
    · simp only [upd_other _ _ hki] at hk ⊢
      have hne : (s.nodes k).term ≠ t0 := by
        intro e'
        have a := h.ldr_role k hk
        rw [e'] at a
        exact hki (ldr_unique h a (h.ldr_role i hl))
      rw [hsame _ hne]; exact h.ldr_log k hk
  · intro k
    show PrefixOK llog' (upd s.nodes i _ k).log
    by_cases hki : k = i
    · subst hki; simpa using pi
    · simp only [upd_other _ _ hki]; exact PrefixOK.of_llog_append happ hsame (h.p_nodes k)
  · intro t
    show PrefixOK llog' (llog' t)
    by_cases ht : t = t0
    · subst ht; simpa [llog'] using pi
    · rw [hsame t ht]; exact PrefixOK.of_llog_append happ hsame (h.p_llog t)
  · intro t src prev pt ents cm hm
    obtain ⟨h1, h2, h3, h4⟩ := h.ae_ok t src prev pt ents cm hm
    show s.isLdr t src ∧ prev ≤ (llog' t).length ∧ pt = termAt (llog' t) prev ∧ ents = ((llog' t).drop prev).take ents.length
    by_cases ht : t = t0
    · subst ht
      rw [happ]
      refine ⟨h1, by simp; omega, by rw [termAt_append_le _ _ h2]; exact h3, ?_⟩
      have hlen : ents.length ≤ (s.llog t0).length - prev := by
        have := congrArg List.length h4
        simp [List.length_take] at this; omega
      rw [List.drop_append_of_le_length h2, List.take_append_of_le_length (by simpa using hlen)]
      exact h4
    · rw [hsame t ht]; exact ⟨h1, h2, h3, h4⟩

theorem inv_becomeLeader {s : Sys N} (h : Inv s) (i : Fin N) (Q : Finset (Fin N)) (hq : N < 2 * Q.card)
    (hc : (s.nodes i).role = .candidate)
    (hQ : ∀ j ∈ Q, j = i ∨ s.msgs (.rvResp (s.nodes i).term j i true)) :
    Inv { s with
      nodes := upd s.nodes i { (s.nodes i) with role := .leader, log := (s.nodes i).log ++ [⟨(s.nodes i).term, 0⟩] }
      llog := fun t => if t = (s.nodes i).term then (s.nodes i).log ++ [⟨(s.nodes i).term, 0⟩] else s.llog t
      isLdr := fun t j => s.isLdr t j ∨ (t = (s.nodes i).term ∧ j = i) } := by
  set t0 := (s.nodes i).term with ht0
  set e : Entry := ⟨t0, 0⟩ with he
  have hQv : ∀ j ∈ Q, s.votes t0 j i := by
    intro j hj
    rcases hQ j hj with rfl | hm
    · exact h.cand_self j (by rw [hc]; simp)
    · exact h.resp_voted _ _ _ hm
  -- nobody was leader of t0 before
  have hfresh : ∀ j, ¬ s.isLdr t0 j := by
    intro j hj
    obtain ⟨Q2, hq2, hv2⟩ := h.ldr_quorum t0 j hj
    obtain ⟨k, hk1, hk2⟩ := quorums_meet Q Q2 hq hq2
    have : i = j := h.votes_fun _ _ _ _ (hQv k hk1) (hv2 k hk2)
    subst this
    exact (h.ldr_term t0 i hj).2 rfl hc
  have hnone : s.llog t0 = [] := h.llog_none t0 hfresh
  let llog' : Nat → Log := fun t => if t = t0 then (s.nodes i).log ++ [e] else s.llog t
  have hsame : ∀ t, t ≠ t0 → llog' t = s.llog t := by intro t ht; simp [llog', ht]
  have hself : llog' e.term = (s.nodes i).log ++ [e] := by simp [llog', he]
  have pi : PrefixOK llog' ((s.nodes i).log ++ [e]) :=
    PrefixOK.snoc (PrefixOK.of_llog_fresh hnone hsame (h.p_nodes i)) hself
  refine ⟨?_, h.resp_voted, ?_, h.votes_fun, ?_, ?_, ?_, ?_, ?_, ?_, ?_, ?_⟩
  · intro t j c hv
    by_cases hji : j = i
    · subst hji; simpa using h.vote_durable t j c hv
    · simp only [upd_other _ _ hji]; exact h.vote_durable t j c hv
  · intro k hk
    by_cases hki : k = i
    · subst hki; simp; exact h.cand_self k (by rw [hc]; simp)
    · simp only [upd_other _ _ hki] at hk ⊢; exact h.cand_self k hk
  · intro t k hk
    rcases hk with hk | ⟨rfl, rfl⟩
    · exact h.ldr_quorum t k hk
    · exact ⟨Q, hq, hQv⟩
  · intro k hk
    by_cases hki : k = i
    · subst hki; simp; exact Or.inr ht0.symm
    · simp only [upd_other _ _ hki] at hk ⊢; exact Or.inl (h.ldr_role k hk)
  · intro t k hk
    by_cases hki : k = i
    · subst hki
      simp
      rcases hk with hk | ⟨rfl, _⟩
      · exact (h.ldr_term t k hk).1
      · exact Nat.le_refl _
    · simp only [upd_other _ _ hki]
      rcases hk with hk | ⟨_, rfl⟩
      · exact h.ldr_term t k hk
      · exact absurd rfl hki
  · intro t hno
    have : t ≠ t0 := by
      intro e'; subst e'; exact hno i (Or.inr ⟨rfl, rfl⟩)
    show llog' t = []
    rw [hsame t this]; exact h.llog_none t (fun j hj => hno j (Or.inl hj))
  · intro k hk
    show (upd s.nodes i _ k).log = llog' (upd s.nodes i _ k).term
    by_cases hki : k = i
    · subst hki; simp [llog', ← ht0]
    · simp only [upd_other _ _ hki] at hk ⊢
      have hne : (s.nodes k).term ≠ t0 := by
        intro e'
        have a := h.ldr_role k hk
        rw [e'] at a
        exact hfresh k a
      rw [hsame _ hne]; exact h.ldr_log k hk
  · intro k
    show PrefixOK llog' (upd s.nodes i _ k).log
    by_cases hki : k = i
    · subst hki; simpa using pi
    · simp only [upd_other _ _ hki]; exact PrefixOK.of_llog_fresh hnone hsame (h.p_nodes k)
  · intro t
    show PrefixOK llog' (llog' t)
    by_cases ht : t = t0
    · subst ht; simpa [llog'] using pi
    · rw [hsame t ht]; exact PrefixOK.of_llog_fresh hnone hsame (h.p_llog t)
  · intro t src prev pt ents cm hm
    obtain ⟨h1, h2, h3, h4⟩ := h.ae_ok t src prev pt ents cm hm
    have ht : t ≠ t0 := by intro e'; subst e'; exact hfresh src h1
    show (s.isLdr t src ∨ _) ∧ prev ≤ (llog' t).length ∧ pt = termAt (llog' t) prev ∧ ents = ((llog' t).drop prev).take ents.length
    rw [hsame t ht]; exact ⟨Or.inl h1, h2, h3, h4⟩

theorem inv_handleAE {s : Sys N} (h : Inv s) (j src : Fin N) (t prev pt : Nat) (ents : Log) (cm : Nat)
    (hm : s.msgs (.ae t src prev pt ents cm)) (ht : (s.nodes j).term = t)
    (hnl : (s.nodes j).role ≠ .leader)
    (hmatch : prev ≤ (s.nodes j).log.length ∧ termAt (s.nodes j).log prev = pt) :
    Inv { s with
      nodes := upd s.nodes j { (s.nodes j) with role := .follower, log := follAppend (s.nodes j).log prev ents }
      msgs := fun m => s.msgs m ∨ m = .aeResp t j src true (prev + ents.length) } := by
  obtain ⟨a1, a2, a3, a4⟩ := h.ae_ok t src prev pt ents cm hm
  have hnew : PrefixOK s.llog (follAppend (s.nodes j).log prev ents) := by
    rw [a4]
    rcases follAppend_cases (h.p_nodes j) (h.p_llog t) hmatch.1 a2 (by rw [hmatch.2, a3]) with e | e
    · rw [e]; exact h.p_nodes j
    · rw [e]; exact (h.p_llog t).take _
  refine ⟨?_, ?_, ?_, h.votes_fun, h.ldr_quorum, ?_, ?_, h.llog_none, ?_, ?_, h.p_llog, ?_⟩
  · intro t' k c hv
    by_cases hki : k = j
    · subst hki; simpa using h.vote_durable t' k c hv
    · simp only [upd_other _ _ hki]; exact h.vote_durable t' k c hv
  · intro t' k c hm'
    rcases hm' with hm' | hm'
    · exact h.resp_voted _ _ _ hm'
    · cases hm'
  · intro k hk
    by_cases hki : k = j
    · subst hki; simp at hk
    · simp only [upd_other _ _ hki] at hk ⊢; exact h.cand_self k hk
  · intro k hk
    by_cases hki : k = j
    · subst hki; simp at hk
    · simp only [upd_other _ _ hki] at hk ⊢; exact h.ldr_role k hk
  · intro t' k hk
    by_cases hki : k = j
    · subst hki; simp; exact (h.ldr_term t' k hk).1
    · simp only [upd_other _ _ hki]; exact h.ldr_term t' k hk
  · intro k hk
    by_cases hki : k = j
    · subst hki; simp at hk
    · simp only [upd_other _ _ hki] at hk ⊢; exact h.ldr_log k hk
  · intro k
    by_cases hki : k = j
    · subst hki; simpa using hnew
    · simp only [upd_other _ _ hki]; exact h.p_nodes k
  · intro t' src' prev' pt' ents' cm' hm'
    rcases hm' with hm' | hm'
    · exact h.ae_ok _ _ _ _ _ _ hm'
    · cases hm'

theorem inv_step {s s' : Sys N} (h : Inv s) (st : Step s s') : Inv s' := by
  cases st with
  | timeout i hr => exact inv_timeout h i hr
  | updateTerm i t ht => exact inv_updateTerm h i t ht
  | grant j c t li lt hm ht hv hu => exact inv_grant h j c t li lt ht hv
  | becomeLeader i Q hq hc hQ => exact inv_becomeLeader h i Q hq hc hQ
  | clientReq i v hl => exact inv_clientReq h i v hl
  | sendAE i prev cnt hl hp => exact inv_sendAE h i prev cnt hl hp
  | handleAE j src t prev pt ents cm hm ht hnl hmatch => exact inv_handleAE h j src t prev pt ents cm hm ht hnl hmatch
  | restart i => exact inv_restart h i

/-- initial state: everybody follower at term 0 with empty logs, no messages -/
def init (N : Nat) : Sys N :=
  { nodes := fun _ => ⟨0, none, .follower, [], 0⟩, msgs := fun _ => False, votes := fun _ _ _ => False,
    llog := fun _ => [], isLdr := fun _ _ => False }

theorem inv_init : Inv (init N) := by
  refine ⟨?_, ?_, ?_, ?_, ?_, ?_, ?_, ?_, ?_, ?_, ?_, ?_⟩ <;> simp [init, PrefixOK]

inductive Reach : Sys N → Prop
| init : Reach (init N)
| step {s s'} : Reach s → Step s s' → Reach s'

theorem reach_inv {s : Sys N} (r : Reach s) : Inv s := by
  induction r with
  | init => exact inv_init
  | step _ st ih => exact inv_step ih st

/-- C15 (fragment): in every reachable state of the abstract protocol, for every cluster size and schedule -/
theorem C15_election_safety {s : Sys N} (r : Reach s) (i j : Fin N)
    (hi : (s.nodes i).role = .leader) (hj : (s.nodes j).role = .leader)
    (ht : (s.nodes i).term = (s.nodes j).term) : i = j := election_safety (reach_inv r) i j hi hj ht

theorem C15_log_matching {s : Sys N} (r : Reach s) (i j : Fin N) (k : Nat) (h1 : 1 ≤ k)
    (hi : k ≤ (s.nodes i).log.length) (hj : k ≤ (s.nodes j).log.length)
    (ht : termAt (s.nodes i).log k = termAt (s.nodes j).log k) :
    (s.nodes i).log.take k = (s.nodes j).log.take k := log_matching (reach_inv r) i j k h1 hi hj ht

#print axioms C15_election_safety
#print axioms C15_log_matching
end RaftLM
