namespace Crc2
def poly : Nat := 0x82f63b78
def stepBit (c : Nat) : Nat := if c % 2 == 1 then (c / 2) ^^^ poly else c / 2
def entry (i : Nat) : Nat := stepBit (stepBit (stepBit (stepBit (stepBit (stepBit (stepBit (stepBit i)))))))
def table : List Nat := (List.range 256).map entry
def tops : List Nat := table.map (· / 2^24)

theorem table_nodup : table.Nodup := by decide +kernel
theorem tops_nodup : tops.Nodup := by decide +kernel
theorem tops_lt : ∀ x ∈ tops, x < 256 := by decide +kernel
#print axioms tops_nodup
end Crc2
